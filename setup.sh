#!/bin/sh
# Nothing to build: the driver is python3 + the pre-installed cbmc tool chain.
# Sanity-check that the tools exist and that /repo has a configured build tree
# (for the compile flags; a frozen copy in cfg/flags.json is used otherwise).
set -e
cd "$(dirname "$0")"
for t in cbmc goto-cc goto-instrument gcc python3; do command -v $t >/dev/null || { echo "missing $t"; exit 1; }; done
chmod +x check
[ -f /repo/_build/build.ninja ] || echo "note: /repo/_build/build.ninja missing, using cfg/flags.json"
./check --list >/dev/null
echo setup ok
