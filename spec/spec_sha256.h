/* SHA-256 per FIPS 180-4, written directly from the standard (sections 4.1.2, 4.2.2, 5.1.1, 5.3.3, 6.2);
 * independent of src/liblzma/check/sha256.c. Whole-message, byte-oriented. */
#ifndef SPEC_SHA256_H
#define SPEC_SHA256_H
#include <stdint.h>
#include <stddef.h>

static inline uint32_t fips_rotr(uint32_t x, unsigned n) { return (x >> n) | (x << (32 - n)); }

static const uint32_t fips_K[64] = {
	0x428a2f98,0x71374491,0xb5c0fbcf,0xe9b5dba5,0x3956c25b,0x59f111f1,0x923f82a4,0xab1c5ed5,
	0xd807aa98,0x12835b01,0x243185be,0x550c7dc3,0x72be5d74,0x80deb1fe,0x9bdc06a7,0xc19bf174,
	0xe49b69c1,0xefbe4786,0x0fc19dc6,0x240ca1cc,0x2de92c6f,0x4a7484aa,0x5cb0a9dc,0x76f988da,
	0x983e5152,0xa831c66d,0xb00327c8,0xbf597fc7,0xc6e00bf3,0xd5a79147,0x06ca6351,0x14292967,
	0x27b70a85,0x2e1b2138,0x4d2c6dfc,0x53380d13,0x650a7354,0x766a0abb,0x81c2c92e,0x92722c85,
	0xa2bfe8a1,0xa81a664b,0xc24b8b70,0xc76c51a3,0xd192e819,0xd6990624,0xf40e3585,0x106aa070,
	0x19a4c116,0x1e376c08,0x2748774c,0x34b0bcb5,0x391c0cb3,0x4ed8aa4a,0x5b9cca4f,0x682e6ff3,
	0x748f82ee,0x78a5636f,0x84c87814,0x8cc70208,0x90befffa,0xa4506ceb,0xbef9a3f7,0xc67178f2 };

static inline void fips_block(uint32_t H[8], const uint8_t *m)
{
	uint32_t W[64];
	for (int t = 0; t < 16; ++t)
		W[t] = ((uint32_t)m[4*t] << 24) | ((uint32_t)m[4*t+1] << 16) | ((uint32_t)m[4*t+2] << 8) | m[4*t+3];
	for (int t = 16; t < 64; ++t) {
		const uint32_t s0 = fips_rotr(W[t-15], 7) ^ fips_rotr(W[t-15], 18) ^ (W[t-15] >> 3);
		const uint32_t s1 = fips_rotr(W[t-2], 17) ^ fips_rotr(W[t-2], 19) ^ (W[t-2] >> 10);
		W[t] = s1 + W[t-7] + s0 + W[t-16];
	}
	uint32_t a = H[0], b = H[1], c = H[2], d = H[3], e = H[4], f = H[5], g = H[6], h = H[7];
	for (int t = 0; t < 64; ++t) {
		const uint32_t S1 = fips_rotr(e, 6) ^ fips_rotr(e, 11) ^ fips_rotr(e, 25);
		const uint32_t ch = (e & f) ^ (~e & g);
		const uint32_t T1 = h + S1 + ch + fips_K[t] + W[t];
		const uint32_t S0 = fips_rotr(a, 2) ^ fips_rotr(a, 13) ^ fips_rotr(a, 22);
		const uint32_t maj = (a & b) ^ (a & c) ^ (b & c);
		const uint32_t T2 = S0 + maj;
		h = g; g = f; f = e; e = d + T1; d = c; c = b; b = a; a = T1 + T2;
	}
	H[0] += a; H[1] += b; H[2] += c; H[3] += d; H[4] += e; H[5] += f; H[6] += g; H[7] += h;
}

/* message of n <= 183 bytes (at most 3 blocks after padding) */
static inline void fips_sha256(const uint8_t *msg, size_t n, uint8_t digest[32])
{
	uint32_t H[8] = { 0x6a09e667,0xbb67ae85,0x3c6ef372,0xa54ff53a,0x510e527f,0x9b05688c,0x1f83d9ab,0x5be0cd19 };
	uint8_t padded[256];
	size_t total = ((n + 8) / 64 + 1) * 64; /* smallest multiple of 64 >= n + 1 + 8 */
	for (size_t i = 0; i < 256; ++i) padded[i] = i < n ? msg[i] : 0;
	padded[n] = 0x80;
	const uint64_t bits = (uint64_t)n * 8;
	for (int i = 0; i < 8; ++i) padded[total - 1 - i] = (uint8_t)(bits >> (8 * i));
	for (size_t off = 0; off < total; off += 64) fips_block(H, padded + off);
	for (int i = 0; i < 8; ++i) { digest[4*i] = (uint8_t)(H[i] >> 24); digest[4*i+1] = (uint8_t)(H[i] >> 16); digest[4*i+2] = (uint8_t)(H[i] >> 8); digest[4*i+3] = (uint8_t)H[i]; }
}
#endif
