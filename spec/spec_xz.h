/* Independent parser/printer of the fixed-size .xz container fields, written
 * from doc/xz-file-format.txt (sections 2.1.1 Stream Header, 2.1.2 Stream
 * Footer). Used only in postconditions. */
#ifndef SPEC_XZ_H
#define SPEC_XZ_H
#include "spec_crc.h"
#include <stdbool.h>

enum { SPEC_OK = 0, SPEC_FORMAT = 1, SPEC_DATA = 2, SPEC_OPTIONS = 3 };

static const uint8_t spec_hmagic[6] = { 0xFD, '7', 'z', 'X', 'Z', 0x00 };
static const uint8_t spec_fmagic[2] = { 'Y', 'Z' };

static inline uint32_t spec_le32(const uint8_t *p)
{
	return (uint32_t)p[0] | ((uint32_t)p[1] << 8) | ((uint32_t)p[2] << 16) | ((uint32_t)p[3] << 24);
}

/* 2.1.1: magic(6) flags(2) crc32-of-flags(4). flags[0] must be 0, high nibble of flags[1] must be 0. */
static inline int spec_stream_header_parse(const uint8_t *in, uint32_t *check)
{
	for (int i = 0; i < 6; ++i)
		if (in[i] != spec_hmagic[i])
			return SPEC_FORMAT;
	if (spec_crc32(in + 6, 2, 0) != spec_le32(in + 8))
		return SPEC_DATA;
	if (in[6] != 0 || (in[7] & 0xF0) != 0)
		return SPEC_OPTIONS;
	*check = in[7] & 0x0F;
	return SPEC_OK;
}

/* 2.1.2: crc32(4) backward_size(4) flags(2) magic(2); crc over backward_size+flags;
 * real backward size = (stored + 1) * 4 */
static inline int spec_stream_footer_parse(const uint8_t *in, uint32_t *check, uint64_t *backward)
{
	if (in[10] != spec_fmagic[0] || in[11] != spec_fmagic[1])
		return SPEC_FORMAT;
	if (spec_crc32(in + 4, 6, 0) != spec_le32(in))
		return SPEC_DATA;
	if (in[8] != 0 || (in[9] & 0xF0) != 0)
		return SPEC_OPTIONS;
	*check = in[9] & 0x0F;
	*backward = ((uint64_t)spec_le32(in + 4) + 1) * 4;
	return SPEC_OK;
}
#endif
