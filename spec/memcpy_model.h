/* CBMC 6.11's built-in memcpy with a SYMBOLIC length into an array of structs can leave the
 * destination unchanged in the model (observed: lzma_filters_copy's final memcpy) and crashes
 * on flexible array members (index.c). Where a harness says so, memcpy of the included
 * translation unit is replaced by this plain word/byte loop (needs an unwinding bound). */
#ifndef VERIF_MEMCPY_MODEL_H
#define VERIF_MEMCPY_MODEL_H
#include <stddef.h>
#include <stdint.h>
static void *verif_memcpy(void *d, const void *s, size_t n)
{
	if ((n & 7) == 0) {
		for (size_t k = 0; k < n / 8; ++k)
			((uint64_t *)d)[k] = ((const uint64_t *)s)[k];
	} else {
		for (size_t k = 0; k < n; ++k)
			((uint8_t *)d)[k] = ((const uint8_t *)s)[k];
	}
	return d;
}
#endif
