/* Specification of the variable-length integer of the .xz format
 * (doc/xz-file-format.txt section 1.2), independent of src/liblzma. */
#ifndef SPEC_VLI_H
#define SPEC_VLI_H
#include <stdint.h>
#include <stdbool.h>
#include <stddef.h>

#define SPEC_VLI_MAX (UINT64_MAX / 2)

/* number of bytes of the (unique, minimal) encoding; 0 if not encodable */
static inline uint32_t spec_vli_size(uint64_t v)
{
	if (v > SPEC_VLI_MAX) return 0;
	if (v < (UINT64_C(1) << 7)) return 1;
	if (v < (UINT64_C(1) << 14)) return 2;
	if (v < (UINT64_C(1) << 21)) return 3;
	if (v < (UINT64_C(1) << 28)) return 4;
	if (v < (UINT64_C(1) << 35)) return 5;
	if (v < (UINT64_C(1) << 42)) return 6;
	if (v < (UINT64_C(1) << 49)) return 7;
	if (v < (UINT64_C(1) << 56)) return 8;
	return 9;
}

/* i-th byte of the encoding of v (i < spec_vli_size(v)) */
static inline uint8_t spec_vli_byte(uint64_t v, uint32_t i)
{
	const uint32_t n = spec_vli_size(v);
	const uint8_t low = (uint8_t)((v >> (7 * i)) & 0x7F);
	return (i + 1 < n) ? (uint8_t)(low | 0x80) : low;
}

/* Parse a VLI at buf[0..avail). Returns length 1..9 of a valid minimal
 * encoding, 0 if the bytes are not a valid encoding (too long, non-minimal),
 * or -1 if the available bytes are a proper prefix of something that could
 * still become valid (truncated). *v gets the value on success. */
static inline int spec_vli_parse(const uint8_t *buf, size_t avail, uint64_t *v)
{
	uint64_t acc = 0;
	for (uint32_t i = 0; i < 9; ++i) {
		if (i >= avail)
			return -1;
		const uint8_t b = buf[i];
		acc |= (uint64_t)(b & 0x7F) << (7 * i);
		if ((b & 0x80) == 0) {
			if (b == 0 && i > 0)
				return 0; /* non-minimal */
			*v = acc;
			return (int)(i + 1);
		}
	}
	return 0; /* continuation bit set in the 9th byte */
}
#endif
