/* Independent per-instruction reference transforms for the BCJ filters, written from the
 * instruction-set encodings and the filter descriptions (LZMA SDK Bra*.c semantics /
 * xz riscv.c design notes): WHICH instruction words are converted and HOW the absolute
 * address is formed. They work on 32-bit words and bit fields, not on the byte-wise code
 * of src/liblzma/simple. enc: relative -> absolute (add pc); dec: absolute -> relative. */
#ifndef BCJ_REF_H
#define BCJ_REF_H
#include <stdint.h>
#include <stdbool.h>
#include <stddef.h>

static inline uint32_t ref_le32(const uint8_t *p) { return (uint32_t)p[0] | ((uint32_t)p[1] << 8) | ((uint32_t)p[2] << 16) | ((uint32_t)p[3] << 24); }
static inline uint32_t ref_be32(const uint8_t *p) { return (uint32_t)p[3] | ((uint32_t)p[2] << 8) | ((uint32_t)p[1] << 16) | ((uint32_t)p[0] << 24); }
static inline void ref_put_le32(uint8_t *p, uint32_t v) { p[0] = (uint8_t)v; p[1] = (uint8_t)(v >> 8); p[2] = (uint8_t)(v >> 16); p[3] = (uint8_t)(v >> 24); }
static inline void ref_put_be32(uint8_t *p, uint32_t v) { p[3] = (uint8_t)v; p[2] = (uint8_t)(v >> 8); p[1] = (uint8_t)(v >> 16); p[0] = (uint8_t)(v >> 24); }
static inline uint32_t ref_adj(uint32_t v, uint32_t pc, bool enc) { return enc ? v + pc : v - pc; }

/* ARM (A32, little endian): BL with condition AL = 0xEB imm24; target = pc + 8 + imm24*4 */
static inline uint32_t ref_arm(uint32_t w, uint32_t pc, bool enc)
{
	if ((w >> 24) != 0xEB) return w;
	const uint32_t byte_off = (w & 0x00FFFFFF) << 2;
	const uint32_t r = ref_adj(byte_off, pc + 8, enc);
	return 0xEB000000 | ((r >> 2) & 0x00FFFFFF);
}

/* PowerPC (big endian): bl = opcode 18, AA=0, LK=1; LI field is bits 2..25 (byte offset) */
static inline uint32_t ref_powerpc(uint32_t w, uint32_t pc, bool enc)
{
	if ((w & 0xFC000003) != 0x48000001) return w;
	const uint32_t r = ref_adj(w & 0x03FFFFFC, pc, enc);
	return 0x48000001 | (r & 0x03FFFFFC);
}

/* SPARC (big endian): call = op 01 + disp30; converted only when disp30 is a sign-extended
 * 23-bit quantity (bits 29..22 all equal); the result is again sign-extended from bit 22 */
static inline uint32_t ref_sparc(uint32_t w, uint32_t pc, bool enc)
{
	const uint32_t top10 = w >> 22;
	if (top10 != 0x100 && top10 != 0x1FF) return w;
	const uint32_t r = ref_adj(w << 2, pc, enc) >> 2;
	const uint32_t low23 = r & 0x7FFFFF;
	const uint32_t sign = (r >> 22) & 1;
	return 0x40000000 | (sign ? 0x3F800000 : 0) | (low23 & 0x3FFFFF) | (sign << 22);
}

/* ARM64 (little endian): BL imm26 (word units); ADRP immhi:immlo (4 KiB page units) only
 * when the page offset is within +/-512 MiB (i.e. bits 20..18 of the 21-bit immediate are
 * a sign extension of bit 17) */
static inline uint32_t ref_arm64(uint32_t w, uint32_t pc, bool enc)
{
	if ((w >> 26) == 0x25) {
		const uint32_t r = ref_adj(w & 0x03FFFFFF, pc >> 2, enc);
		return 0x94000000 | (r & 0x03FFFFFF);
	}
	if ((w & 0x9F000000) == 0x90000000) {
		const uint32_t imm = ((w >> 29) & 3) | (((w >> 5) & 0x7FFFF) << 2); /* 21 bits */
		const uint32_t hi = (imm >> 17) & 0xF;  /* bits 20..17 */
		if (hi != 0 && hi != 0xF) return w;      /* not a sign extension of bit 17 */
		const uint32_t r = ref_adj(imm & 0x3FFFF, pc >> 12, enc) & 0x3FFFF; /* 18 bits */
		const uint32_t out = (r & 0x20000) ? (r | 0x1C0000) : r;            /* sign extend to 21 */
		return (w & 0x9F00001F) | ((out & 3) << 29) | (((out >> 2) & 0x7FFFF) << 5);
	}
	return w;
}

/* ARM Thumb (little-endian halfwords): BL pair 11110 imm11hi / 11111 imm11lo;
 * target = pc + 4 + imm22*2. hw0 is the first halfword. */
static inline bool ref_thumb_is_bl(uint16_t hw0, uint16_t hw1) { return (hw0 & 0xF800) == 0xF000 && (hw1 & 0xF800) == 0xF800; }
static inline void ref_thumb(uint16_t *hw0, uint16_t *hw1, uint32_t pc, bool enc)
{
	const uint32_t imm22 = ((uint32_t)(*hw0 & 0x7FF) << 11) | (*hw1 & 0x7FF);
	const uint32_t r = ref_adj(imm22 << 1, pc + 4, enc) >> 1;
	*hw0 = (uint16_t)(0xF000 | ((r >> 11) & 0x7FF));
	*hw1 = (uint16_t)(0xF800 | (r & 0x7FF));
}

/* ---------------- RISC-V (whole-buffer reference; units are 2..8 bytes) ---------------- */
static inline uint32_t ref_rv_jal_imm(uint32_t inst) /* J-type immediate, bit 0 = 0 */
{
	return (((inst >> 31) & 1) << 20) | (((inst >> 21) & 0x3FF) << 1) | (((inst >> 20) & 1) << 11) | (((inst >> 12) & 0xFF) << 12);
}
static inline uint32_t ref_rv_jal_pack(uint32_t inst, uint32_t imm)
{
	return (inst & 0xFFF) | (((imm >> 20) & 1) << 31) | (((imm >> 1) & 0x3FF) << 21) | (((imm >> 11) & 1) << 20) | (((imm >> 12) & 0xFF) << 12);
}

static inline size_t ref_riscv_encode(uint32_t now_pos, uint8_t *buf, size_t size)
{
	size_t i = 0;
	while (i + 8 <= size) {
		const uint32_t inst = ref_le32(buf + i);
		const uint32_t opcode = inst & 0x7F, rd = (inst >> 7) & 0x1F;
		const uint32_t pc = now_pos + (uint32_t)i;
		if (opcode == 0x6F && (rd & 1)) {         /* JAL with odd rd: byte 0 == 0xEF */
			if (rd != 1 && rd != 5) { i += 2; continue; }
			const uint32_t addr = ref_rv_jal_imm(inst) + pc; /* absolute, stored big-endian-like in bits 31..12 */
			const uint32_t out = (inst & 0xFFF) | (((addr >> 17) & 0xF) << 12) | (((addr >> 9) & 0xFF) << 16) | (((addr >> 1) & 0xFF) << 24);
			ref_put_le32(buf + i, out);
			i += 4;
		} else if (opcode == 0x17) {                /* AUIPC */
			if (rd != 0 && rd != 2) {
				const uint32_t inst2 = ref_le32(buf + i + 4);
				const bool pair = (inst2 & 3) == 3 && ((inst2 >> 15) & 0x1F) == rd;
				if (!pair) { i += 6; continue; }
				const uint32_t simm12 = (uint32_t)((int32_t)inst2 >> 20);
				const uint32_t addr = (inst & 0xFFFFF000) + simm12 + pc;
				ref_put_le32(buf + i, 0x17 | (2u << 7) | (inst2 << 12));
				ref_put_be32(buf + i + 4, addr);
				i += 8;
			} else {
				/* looks like an already-converted pair (rd = x2, payload opcode bits 11, rs1 field not x0/x2): escape it */
				const uint32_t fake_rs1 = inst >> 27;
				const bool special = rd == 2 && ((inst >> 12) & 3) == 3 && fake_rs1 != 0 && fake_rs1 != 2;
				if (!special) { i += 4; continue; }
				const uint32_t fake_addr = ref_le32(buf + i + 4);
				ref_put_le32(buf + i, 0x17 | (fake_rs1 << 7) | (fake_addr & 0xFFFFF000));
				ref_put_le32(buf + i + 4, (inst >> 12) | (fake_addr << 20));
				i += 8;
			}
		} else {
			i += 2;
		}
	}
	return i;
}

static inline size_t ref_riscv_decode(uint32_t now_pos, uint8_t *buf, size_t size)
{
	size_t i = 0;
	while (i + 8 <= size) {
		const uint32_t inst = ref_le32(buf + i);
		const uint32_t opcode = inst & 0x7F, rd = (inst >> 7) & 0x1F;
		const uint32_t pc = now_pos + (uint32_t)i;
		if (opcode == 0x6F && (rd & 1)) {
			if (rd != 1 && rd != 5) { i += 2; continue; }
			const uint32_t addr = ((((inst >> 12) & 0xF) << 17) | (((inst >> 16) & 0xFF) << 9) | (((inst >> 24) & 0xFF) << 1)) - pc;
			ref_put_le32(buf + i, ref_rv_jal_pack(inst, addr & 0x1FFFFE));
			i += 4;
		} else if (opcode == 0x17) {
			if (rd != 0 && rd != 2) {
				/* an escaped look-alike: undo the escape */
				const uint32_t inst2 = ref_le32(buf + i + 4);
				const bool pair = (inst2 & 3) == 3 && ((inst2 >> 15) & 0x1F) == rd;
				if (!pair) { i += 6; continue; }
				const uint32_t addr = (inst & 0xFFFFF000) + (inst2 >> 20);
				ref_put_le32(buf + i, 0x17 | (2u << 7) | (inst2 << 12));
				ref_put_le32(buf + i + 4, addr);
				i += 8;
			} else {
				const uint32_t rs1 = inst >> 27;
				const bool special = rd == 2 && ((inst >> 12) & 3) == 3 && rs1 != 0 && rs1 != 2;
				if (!special) { i += 4; continue; }
				const uint32_t addr = ref_be32(buf + i + 4) - pc;
				const uint32_t inst2 = (inst >> 12) | (addr << 20);
				ref_put_le32(buf + i, 0x17 | (rs1 << 7) | ((addr + 0x800) & 0xFFFFF000));
				ref_put_le32(buf + i + 4, inst2);
				i += 8;
			}
		} else {
			i += 2;
		}
	}
	return i;
}
#endif
