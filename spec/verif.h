/* Common macros for /verif harnesses.
 *
 * VERIF_CBMC   : compiled by goto-cc; contract macros expand to __CPROVER_* clauses.
 * VERIF_NATIVE : compiled by gcc for a native replay of a counterexample; the global
 *                input struct IN is initialised from the verifier's trace and the
 *                contract is re-checked with ordinary C (pre()/post() functions).
 */
#ifndef VERIF_H
#define VERIF_H

#include <stdbool.h>
#include <stddef.h>
#include <stdint.h>
#include <string.h>

#ifdef VERIF_CBMC
#	define REQUIRES(...) __CPROVER_requires(__VA_ARGS__)
#	define ENSURES(...) __CPROVER_ensures(__VA_ARGS__)
#	define ASSIGNS(...) __CPROVER_assigns(__VA_ARGS__)
#	define RET __CPROVER_return_value
#	define OLD(x) __CPROVER_old(x)
#	define ASSERT(c, msg) __CPROVER_assert((c), msg)
#	define ASSUME(c) __CPROVER_assume(c)
	/* reachability sentinel: MUST be reported FAILED by cbmc, otherwise the
	 * harness is vacuous (contradictory precondition) */
#	define REACH(name) __CPROVER_assert(0, "SENTINEL " #name)
#	define REACH_IF(c, name) do { if (c) __CPROVER_assert(0, "SENTINEL " #name); } while (0)
#	define HAVOC(var, type) do { type nondet_verif_##var(void); (var) = nondet_verif_##var(); } while (0)
#	define NATIVE_ASSUME(c) ((void)0)
#	define NATIVE_ASSERT(c, msg) ((void)0)
#	define VERIF_IN_INIT
#else
#	include <stdio.h>
#	include <stdlib.h>
#	define REQUIRES(...)
#	define ENSURES(...)
#	define ASSIGNS(...)
	static int verif_fail = 0;
#	define ASSERT(c, msg) do { if (!(c)) { printf("REPLAY-FAIL: %s  [%s:%d]\n", msg, __FILE__, __LINE__); verif_fail = 1; } } while (0)
#	define ASSUME(c) do { if (!(c)) { printf("REPLAY-ASSUMPTION-NOT-MET: %s\n", #c); exit(3); } } while (0)
#	define REACH(name) ((void)0)
#	define REACH_IF(c, name) ((void)0)
#	define HAVOC(var, type) ((void)0)
#	define NATIVE_ASSUME(c) ASSUME(c)
#	define NATIVE_ASSERT(c, msg) ASSERT(c, msg)
#	ifndef VERIF_IN_INIT
#		define VERIF_IN_INIT
#	endif
#endif

/* CHK(c): inside a bool-returning pre/post function: fail the clause and record which line failed
 * (shows up as verif_why in the counterexample trace and in native replays) */
static int verif_why;
#define CHK(c) do { if (!(c)) { verif_why = __LINE__; return false; } } while (0)

#endif
