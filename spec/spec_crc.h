/* Bit-at-a-time CRC definitions (reflected), independent of src/liblzma/check.
 * CRC-32: IEEE 802.3 polynomial 0x04C11DB7 (reflected 0xEDB88320), init/xorout ~0.
 * CRC-64: ECMA-182 polynomial 0x42F0E1EBA9EA3693 (reflected 0xC96C5795D7870F42). */
#ifndef SPEC_CRC_H
#define SPEC_CRC_H
#include <stdint.h>
#include <stddef.h>

static inline uint32_t spec_crc32_bytestep(uint32_t c, uint8_t b)
{
	c ^= b;
	for (int i = 0; i < 8; ++i)
		c = (c >> 1) ^ ((c & 1) ? UINT32_C(0xEDB88320) : 0);
	return c;
}

static inline uint32_t spec_crc32(const uint8_t *buf, size_t n, uint32_t crc)
{
	uint32_t c = ~crc;
	for (size_t i = 0; i < n; ++i)
		c = spec_crc32_bytestep(c, buf[i]);
	return ~c;
}

static inline uint64_t spec_crc64_bytestep(uint64_t c, uint8_t b)
{
	c ^= b;
	for (int i = 0; i < 8; ++i)
		c = (c >> 1) ^ ((c & 1) ? UINT64_C(0xC96C5795D7870F42) : 0);
	return c;
}

static inline uint64_t spec_crc64(const uint8_t *buf, size_t n, uint64_t crc)
{
	uint64_t c = ~crc;
	for (size_t i = 0; i < n; ++i)
		c = spec_crc64_bytestep(c, buf[i]);
	return ~c;
}
#endif
