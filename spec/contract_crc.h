/* Functional contracts of lzma_crc32 / lzma_crc64 against the bit-at-a-time
 * definitions. Enforced on the real functions by harness/crc.c (C14) for the
 * sizes stated there; used by callers through --replace-call-with-contract. */
#ifndef CONTRACT_CRC_H
#define CONTRACT_CRC_H
#include "verif.h"
#include "spec_crc.h"

#ifndef CRC_CONTRACT_MAXN
#	define CRC_CONTRACT_MAXN 8
#endif
#ifndef CRC64_CONTRACT_MAXN
#	define CRC64_CONTRACT_MAXN 4
#endif

extern uint32_t lzma_crc32(const uint8_t *buf, size_t size, uint32_t crc)
REQUIRES(size <= CRC_CONTRACT_MAXN)
REQUIRES(__CPROVER_is_fresh(buf, size))
ENSURES(RET == spec_crc32(buf, size, crc))
ASSIGNS();

extern uint64_t lzma_crc64(const uint8_t *buf, size_t size, uint64_t crc)
REQUIRES(size <= CRC64_CONTRACT_MAXN)
REQUIRES(__CPROVER_is_fresh(buf, size))
ENSURES(RET == spec_crc64(buf, size, crc))
ASSIGNS();
#endif
