/* Threaded Stream encoder: (re-)initialisation, sequential (src/liblzma/common/stream_encoder_mt.c): C08, C10. */

/*@obligation
id: C08.mt.init
props: C08 C10
entry: h_mt_init
unwind: 6
fn: stream_encoder_mt_init threads_end threads_stop
sentinels: 5
expect: 30
replay: none
desc: stream_encoder_mt_init on a fresh or a REUSED threaded encoder (workers idle or mid-Block, any number already started, same or different thread count), every allocation free to fail: on EVERY return path the coder is consistent -- threads==NULL implies threads_initialized==0 and threads_max==0, threads_initialized <= threads_max (lzma_end and a later re-init never index a missing array or join dead threads); after a successful init no worker is the 'current' one (thr==NULL: new input can never be copied into a stale worker's buffer), the state machine is at the Stream Header, thread_error is clear, progress counters restart, all old workers were told to stop/exit and were waited for
assume: SEQUENTIAL model only: pthread primitives are no-op stubs, a worker answers a stop request by becoming idle at the next cond_wait; thread schedules are outside this technique (C07/C08 notes). outq/filters/index/header callees are stubs with nondeterministic failure
*/

#include "verif.h"
#include "liblzma/common/common.h"

struct in {
	uint8_t fresh; uint32_t old_max, old_init, new_threads; uint8_t has_thr;
	uint8_t fail_arr, fail_coder, fail_outq, fail_copy, fail_index; uint32_t hdr_ret;
	uint32_t check; uint8_t supported; uint64_t rawmem, bound;
	uint32_t st0, st1;
};
static struct in IN VERIF_IN_INIT;

static struct { unsigned joins, allocs, frees; bool arr_live; } GM;
static union { uint64_t a; uint8_t raw[4096]; } ARRPOOL;

/* ---- sequential stubs of the pthread layer ---- */
#include <pthread.h>
#include <signal.h>
int pthread_mutex_init(pthread_mutex_t *m, const pthread_mutexattr_t *a) { (void)m; (void)a; return 0; }
int pthread_mutex_destroy(pthread_mutex_t *m) { (void)m; return 0; }
int pthread_mutex_lock(pthread_mutex_t *m) { (void)m; return 0; }
int pthread_mutex_unlock(pthread_mutex_t *m) { (void)m; return 0; }
int pthread_cond_init(pthread_cond_t *c, const pthread_condattr_t *a) { (void)c; (void)a; return 0; }
int pthread_cond_destroy(pthread_cond_t *c) { (void)c; return 0; }
int pthread_cond_signal(pthread_cond_t *c) { (void)c; return 0; }
int pthread_condattr_init(pthread_condattr_t *a) { (void)a; return 0; }
int pthread_condattr_destroy(pthread_condattr_t *a) { (void)a; return 0; }
int pthread_condattr_setclock(pthread_condattr_t *a, clockid_t c) { (void)a; (void)c; return 0; }
int pthread_join(pthread_t t, void **r) { (void)t; (void)r; ++GM.joins; return 0; }
int pthread_create(pthread_t *t, const pthread_attr_t *a, void *(*f)(void *), void *arg) { (void)t; (void)a; (void)f; (void)arg; return 0; }
int pthread_sigmask(int how, const sigset_t *s, sigset_t *o) { (void)how; (void)s; (void)o; return 0; }
int pthread_cond_timedwait(pthread_cond_t *c, pthread_mutex_t *m, const struct timespec *t) { (void)c; (void)m; (void)t; return 0; }
static void workers_become_idle(void);
int pthread_cond_wait(pthread_cond_t *c, pthread_mutex_t *m) { (void)c; (void)m; workers_become_idle(); return 0; }

/* ---- stubs of the other callees ---- */
void *lzma_alloc(size_t size, const lzma_allocator *a)
{
	(void)a; ++GM.allocs;
	if (size > sizeof(ARRPOOL)) return NULL;
	if (IN.fail_arr) return NULL;
	GM.arr_live = true;
	return &ARRPOOL;
}
void lzma_free(void *p, const lzma_allocator *a) { (void)a; if (p != NULL) { ++GM.frees; if (p == (void *)&ARRPOOL) GM.arr_live = false; } }
void lzma_next_end(lzma_next_coder *n, const lzma_allocator *a) { (void)a; *n = LZMA_NEXT_CODER_INIT; }
lzma_ret lzma_strm_init(lzma_stream *s) { (void)s; return LZMA_PROG_ERROR; }
void lzma_end(lzma_stream *s) { (void)s; }
uint64_t lzma_raw_encoder_memusage(const lzma_filter *f) { (void)f; return IN.rawmem; }
lzma_bool lzma_check_is_supported(lzma_check c) { (void)c; return IN.supported; }
void lzma_filters_free(lzma_filter *f, const lzma_allocator *a) { (void)f; (void)a; }
lzma_ret lzma_filters_copy(const lzma_filter *s, lzma_filter *d, const lzma_allocator *a) { (void)s; (void)d; (void)a; return IN.fail_copy ? LZMA_MEM_ERROR : LZMA_OK; }
void lzma_index_end(lzma_index *i, const lzma_allocator *a) { (void)i; (void)a; }
static int IDXOBJ;
lzma_index *lzma_index_init(const lzma_allocator *a) { (void)a; return IN.fail_index ? NULL : (lzma_index *)&IDXOBJ; }
lzma_ret lzma_stream_header_encode(const lzma_stream_flags *o, uint8_t *out) { (void)o; (void)out; return (lzma_ret)IN.hdr_ret; }
uint64_t lzma_block_buffer_bound64(uint64_t s) { (void)s; return IN.bound; }
uint64_t lzma_mt_block_size(const lzma_filter *f) { (void)f; return 1 << 20; }
#include "liblzma/common/outqueue.h"
lzma_ret lzma_outq_init(lzma_outq *q, const lzma_allocator *a, uint32_t t) { (void)q; (void)a; (void)t; return IN.fail_outq ? LZMA_MEM_ERROR : LZMA_OK; }
void lzma_outq_end(lzma_outq *q, const lzma_allocator *a) { (void)q; (void)a; }
uint64_t lzma_outq_memusage(uint64_t b, uint32_t t) { (void)b; (void)t; return 1; }
#include "liblzma/common/easy_preset.h"
bool lzma_easy_preset(lzma_options_easy *e, uint32_t p) { (void)e; (void)p; return false; }

#include "liblzma/common/stream_encoder_mt.c"

static lzma_stream_coder C;
static worker_thread W[2];
static void workers_become_idle(void) { W[0].state = THR_IDLE; W[1].state = THR_IDLE; }

void h_mt_init(void)
{
	HAVOC(IN, struct in);
	ASSUME(IN.fresh <= 1 && IN.has_thr <= 1 && IN.fail_arr <= 1 && IN.fail_coder <= 1 && IN.fail_outq <= 1 && IN.fail_copy <= 1 && IN.fail_index <= 1 && IN.supported <= 1);
	ASSUME(IN.hdr_ret == LZMA_OK || IN.hdr_ret == LZMA_PROG_ERROR);
	ASSUME(IN.new_threads >= 1 && IN.new_threads <= 3 && IN.st0 <= THR_EXIT && IN.st1 <= THR_EXIT && IN.check <= 16);
	/* a consistent old coder: no array <=> no threads; at most 2 workers in this model */
	ASSUME(IN.old_max <= 2 && IN.old_init <= IN.old_max);
	memset(&C, 0, sizeof(C)); memset(&GM, 0, sizeof(GM));
	lzma_next_coder next = LZMA_NEXT_CODER_INIT;
	lzma_filter flt[2] = { { .id = LZMA_FILTER_LZMA2, .options = NULL }, { .id = LZMA_VLI_UNKNOWN, .options = NULL } };
	lzma_mt opt; memset(&opt, 0, sizeof(opt));
	opt.threads = IN.new_threads; opt.filters = flt; opt.check = (lzma_check)IN.check; opt.block_size = 1 << 20;
	/* only the reuse path is modelled: a fresh coder needs an allocation of sizeof(lzma_stream_coder), which the stub refuses */
	next.coder = &C; next.init = (uintptr_t)&stream_encoder_mt_init; next.code = &stream_encode_mt; next.end = &stream_encoder_mt_end;
	C.threads = IN.old_max ? W : NULL; C.threads_max = IN.old_max; C.threads_initialized = IN.old_init;
	W[0].state = (worker_state)IN.st0; W[1].state = (worker_state)IN.st1;
	C.thr = (IN.has_thr && IN.old_init > 0) ? &W[0] : NULL;     /* a Block was being fed to worker 0 */
	C.threads_free = IN.old_init > 1 ? &W[1] : NULL;
	C.sequence = SEQ_BLOCK; C.thread_error = LZMA_OK; C.index = (lzma_index *)&IDXOBJ;
	C.filters[0].id = LZMA_VLI_UNKNOWN; C.filters_cache[0].id = LZMA_VLI_UNKNOWN; C.index_encoder = LZMA_NEXT_CODER_INIT;

	const lzma_ret r = stream_encoder_mt_init(&next, NULL, &opt);

	/* representation invariant on EVERY return path */
	ASSERT(C.threads != NULL || (C.threads_initialized == 0 && C.threads_max == 0), "no worker array implies no initialised workers and thread limit 0");
	ASSERT(C.threads_initialized <= C.threads_max, "initialised workers never exceed the array size");
	if (r == LZMA_OK) {
		ASSERT(C.thr == NULL, "after (re-)initialisation no worker is current: input cannot go to a stale worker");
		ASSERT(C.sequence == SEQ_STREAM_HEADER && C.thread_error == LZMA_OK && C.header_pos == 0, "encoder restarts at the Stream Header with no pending error");
		ASSERT(C.threads_max == IN.new_threads && C.progress_in == 0 && C.progress_out == LZMA_STREAM_HEADER_SIZE, "thread limit and progress counters reset");
		if (IN.old_max == IN.new_threads) {
			ASSERT(C.threads == W && C.threads_initialized == IN.old_init, "same thread count: workers kept");
			if (IN.old_init >= 1) ASSERT(W[0].state == THR_IDLE, "kept workers were stopped and waited for");
			REACH(mt_reuse_threads);
		} else {
			ASSERT(GM.joins == IN.old_init && C.threads_initialized == 0, "different thread count: every old worker joined, none counted as initialised in the new array");
			REACH(mt_new_array);
		}
		REACH_IF(IN.has_thr && IN.old_init > 0, mt_was_mid_block);
	} else {
		REACH_IF(r == LZMA_MEM_ERROR && IN.fail_arr && IN.old_max != IN.new_threads && IN.old_init > 0, mt_array_alloc_failed);
		REACH_IF(r == LZMA_MEM_ERROR && IN.fail_outq, mt_outq_failed);
	}
}
