/* .xz Stream decoder state machine (src/liblzma/common/stream_decoder.c): C03, C05, C06, C09, C16, C04. */

/*@obligation
id: C16.stream.padding
props: C16 C05 C06 C04
entry: h_sd
defs: -DSD_SEQ=6
unwind: 12
cbmc: --unwindset stream_decode.5:3
restrict: stream_decode.function_pointer_call.1/stub_block_code
missed_ok: yes
fn: stream_decode stream_decoder_reset
sentinels: 5
expect: 30
desc: Stream Padding (LZMA_CONCATENATED): from ANY padding phase pos in 0..3 and up to 6 input bytes, one call AND every two-call split of the same bytes: zero bytes are counted modulo four ACROSS calls (phase after = (pos + zeros) mod 4); a non-zero byte while the count is not a multiple of four is DATA_ERROR; at a multiple of four the decoder is reset for a new Stream and the byte is left unread; end of input gives STREAM_END only with LZMA_FINISH and a multiple of four, DATA_ERROR with FINISH otherwise, OK without FINISH; the split result equals the one-call result
assume: callees (header/footer/block-header decoders, index hash, block decoder) are recording stubs with nondeterministic results; their own contracts are separate obligations
*/
/*@obligation
id: C03.stream.footer
props: C03 C05 C04 C16
entry: h_sd
defs: -DSD_SEQ=5
unwind: 14
cbmc: --unwindset stream_decode.5:3
restrict: stream_decode.function_pointer_call.1/stub_block_code
missed_ok: yes
fn: stream_decode
sentinels: 3
expect: 30
desc: Stream Footer state: the 12 footer bytes are buffered position-driven (any slicing); STREAM_END (or the move to Stream Padding) happens only if the footer decodes, the Backward Size equals the size of the Index just hashed and the footer flags equal the header flags; a bad footer magic is DATA_ERROR (not FORMAT_ERROR); incomplete footer never ends the stream; without LZMA_CONCATENATED STREAM_END is returned with *in_pos exactly after the footer
assume: as C16.stream.padding
*/
/*@obligation
id: C03.stream.header
props: C03 C05 C04
entry: h_sd
defs: -DSD_SEQ=0
unwind: 14
cbmc: --unwindset stream_decode.5:3
restrict: stream_decode.function_pointer_call.1/stub_block_code
missed_ok: yes
fn: stream_decode
sentinels: 3
expect: 30
desc: Stream Header state: 12 bytes buffered for any slicing; header errors are returned, FORMAT_ERROR becomes DATA_ERROR for a non-first Stream; NO_CHECK / UNSUPPORTED_CHECK / GET_CHECK tell-codes in that precedence and only when asked; the Block check type is taken from the Stream Header
assume: as C16.stream.padding
*/
/*@obligation
id: C03.stream.block
props: C03 C05 C09 C04
entry: h_sd
defs: -DSD_SEQ=1
unwind: 14
cbmc: --unwindset stream_decode.5:3
restrict: stream_decode.function_pointer_call.1/stub_block_code
missed_ok: yes
fn: stream_decode
sentinels: 4
expect: 30
desc: Block Header / Block init / Block run: the Index indicator 0x00 switches to the Index only at a Block Header boundary; header size comes from the first byte ((b+1)*4 <= 1024 = buffer size, so buffering stays in bounds); the Block decoder is initialised only if lzma_raw_decoder_memusage <= memlimit (else MEMLIMIT_ERROR with the buffered header kept for a retry, UINT64_MAX = OPTIONS_ERROR); the decoded filter options are freed exactly once on every path; when a Block ends its unpadded and uncompressed sizes are appended to the Index hash
assume: as C16.stream.padding
*/

#include "verif.h"
#include "liblzma/common/common.h"
#include "liblzma/common/index.h"

struct in {
	uint32_t seq; size_t pos;
	uint8_t tell_no, tell_unsup, tell_any, ignore, concat, first;
	uint64_t memlimit, memusage;
	uint8_t inb[8]; size_t in_size, k; uint32_t action;
	uint32_t hdr_ret, hdr_check, ftr_ret, ftr_check; uint64_t ftr_backward, hash_size;
	uint32_t cmp_ret, bh_ret, binit_ret, brun_ret, app_ret, idx_ret, reset_fail;
	uint64_t raw_mem, unpadded, uncomp;
	size_t b_in, idx_in;
	uint32_t header_size;
	uint8_t check_supported;
};
static struct in IN VERIF_IN_INIT;

static struct {
	unsigned hdr, ftr, cmp, bh, binit, brun, app, idx, ffree, reset, rawmem;
	uint8_t hdr_buf0, ftr_buf0; lzma_vli app_unp, app_unc;
	const void *bh_buf;
} G;
static int HASHOBJ, BLKOBJ;

/* ---- stubs of the callees (each has its own obligations elsewhere) ---- */
size_t lzma_bufcpy(const uint8_t *restrict in, size_t *restrict in_pos, size_t in_size,
		uint8_t *restrict out, size_t *restrict out_pos, size_t out_size)
{
	const size_t in_avail = in_size - *in_pos, out_avail = out_size - *out_pos;
	const size_t n = in_avail < out_avail ? in_avail : out_avail;
	for (size_t k = 0; k < n; ++k) out[*out_pos + k] = in[*in_pos + k];
	*in_pos += n; *out_pos += n;
	return n;
}
lzma_ret lzma_stream_header_decode(lzma_stream_flags *o, const uint8_t *in) { ++G.hdr; G.hdr_buf0 = in[0]; o->version = 0; o->check = (lzma_check)IN.hdr_check; o->backward_size = LZMA_VLI_UNKNOWN; return (lzma_ret)IN.hdr_ret; }
lzma_ret lzma_stream_footer_decode(lzma_stream_flags *o, const uint8_t *in) { ++G.ftr; G.ftr_buf0 = in[0]; o->version = 0; o->check = (lzma_check)IN.ftr_check; o->backward_size = IN.ftr_backward; return (lzma_ret)IN.ftr_ret; }
lzma_ret lzma_stream_flags_compare(const lzma_stream_flags *a, const lzma_stream_flags *b) { (void)a; (void)b; ++G.cmp; return (lzma_ret)IN.cmp_ret; }
lzma_bool lzma_check_is_supported(lzma_check c) { (void)c; return IN.check_supported; }
lzma_ret lzma_block_header_decode(lzma_block *b, const lzma_allocator *a, const uint8_t *in) { (void)a; ++G.bh; G.bh_buf = in; b->filters[0].id = LZMA_VLI_UNKNOWN; b->uncompressed_size = IN.uncomp; return (lzma_ret)IN.bh_ret; }
uint64_t lzma_raw_decoder_memusage(const lzma_filter *f) { (void)f; ++G.rawmem; return IN.raw_mem; }
void lzma_filters_free(lzma_filter *f, const lzma_allocator *a) { (void)f; (void)a; ++G.ffree; }
lzma_vli lzma_block_unpadded_size(const lzma_block *b) { (void)b; return IN.unpadded; }
static lzma_ret stub_block_code(void *c, const lzma_allocator *a, const uint8_t *restrict in, size_t *restrict in_pos, size_t in_size,
		uint8_t *restrict out, size_t *restrict out_pos, size_t out_size, lzma_action action)
{
	(void)c; (void)a; (void)in; (void)out; (void)out_pos; (void)out_size; (void)action;
	++G.brun;
	size_t n = IN.b_in; if (n > in_size - *in_pos) n = in_size - *in_pos;
	*in_pos += n;
	return (lzma_ret)IN.brun_ret;
}
lzma_ret lzma_block_decoder_init(lzma_next_coder *next, const lzma_allocator *a, lzma_block *b) { (void)a; (void)b; ++G.binit; if (IN.binit_ret == LZMA_OK) { next->coder = &BLKOBJ; next->code = &stub_block_code; } return (lzma_ret)IN.binit_ret; }
lzma_index_hash *lzma_index_hash_init(lzma_index_hash *h, const lzma_allocator *a) { (void)h; (void)a; ++G.reset; return IN.reset_fail ? NULL : (lzma_index_hash *)&HASHOBJ; }
void lzma_index_hash_end(lzma_index_hash *h, const lzma_allocator *a) { (void)h; (void)a; }
lzma_ret lzma_index_hash_append(lzma_index_hash *h, lzma_vli u, lzma_vli c) { (void)h; ++G.app; G.app_unp = u; G.app_unc = c; return (lzma_ret)IN.app_ret; }
lzma_ret lzma_index_hash_decode(lzma_index_hash *h, const uint8_t *in, size_t *in_pos, size_t in_size)
{ (void)h; (void)in; ++G.idx; size_t n = IN.idx_in; if (n > in_size - *in_pos) n = in_size - *in_pos; *in_pos += n; return (lzma_ret)IN.idx_ret; }
lzma_vli lzma_index_hash_size(const lzma_index_hash *h) { (void)h; return IN.hash_size; }
void *lzma_alloc(size_t s, const lzma_allocator *a) { (void)s; (void)a; return NULL; }
void lzma_free(void *p, const lzma_allocator *a) { (void)p; (void)a; }
void lzma_next_end(lzma_next_coder *n, const lzma_allocator *a) { (void)a; *n = LZMA_NEXT_CODER_INIT; }
lzma_ret lzma_strm_init(lzma_stream *s) { (void)s; return LZMA_PROG_ERROR; }
void lzma_end(lzma_stream *s) { (void)s; }

#include "liblzma/common/stream_decoder.c"

static lzma_stream_coder C;
static uint8_t OUT[4];

static void setup(void)
{
	memset(&C, 0, sizeof(C)); memset(&G, 0, sizeof(G));
	C.sequence = SD_SEQ; C.pos = IN.pos;
	C.index_hash = (lzma_index_hash *)&HASHOBJ;
	C.memlimit = IN.memlimit; C.memusage = IN.memusage;
	C.tell_no_check = IN.tell_no; C.tell_unsupported_check = IN.tell_unsup; C.tell_any_check = IN.tell_any;
	C.ignore_check = IN.ignore; C.concatenated = IN.concat; C.first_stream = IN.first;
	C.stream_flags.check = (lzma_check)IN.hdr_check;
	C.block_options.header_size = IN.header_size;
	C.block_decoder = LZMA_NEXT_CODER_INIT;
	if (SD_SEQ == SEQ_BLOCK_RUN) { C.block_decoder.coder = &BLKOBJ; C.block_decoder.code = &stub_block_code; }
}

static bool ret_ok(uint32_t r) { return r <= 12 && r != LZMA_BUF_ERROR; }

void h_sd(void)
{
	HAVOC(IN, struct in);
	ASSUME(IN.tell_no <= 1 && IN.tell_unsup <= 1 && IN.tell_any <= 1 && IN.ignore <= 1 && IN.concat <= 1 && IN.first <= 1 && IN.check_supported <= 1 && IN.reset_fail <= 1);
	ASSUME(IN.in_size <= 8 && IN.k <= IN.in_size && IN.action <= 4 && IN.hdr_check <= 15 && IN.ftr_check <= 15);
	ASSUME(ret_ok(IN.hdr_ret) && ret_ok(IN.ftr_ret) && ret_ok(IN.cmp_ret) && ret_ok(IN.bh_ret) && ret_ok(IN.binit_ret) && ret_ok(IN.brun_ret) && ret_ok(IN.app_ret) && ret_ok(IN.idx_ret));
	ASSUME(IN.hdr_ret != LZMA_STREAM_END && IN.ftr_ret != LZMA_STREAM_END && IN.cmp_ret != LZMA_STREAM_END && IN.bh_ret != LZMA_STREAM_END && IN.binit_ret != LZMA_STREAM_END && IN.app_ret != LZMA_STREAM_END);
	/* the tell-codes belong to the Stream Header state only */
	ASSUME(IN.brun_ret < 2 || IN.brun_ret > 4); ASSUME(IN.bh_ret < 2 || IN.bh_ret > 4); ASSUME(IN.binit_ret < 2 || IN.binit_ret > 4); ASSUME(IN.idx_ret < 2 || IN.idx_ret > 4); ASSUME(IN.app_ret < 2 || IN.app_ret > 4);
	ASSUME(IN.memlimit >= 1);
	size_t in_pos = 0, out_pos = 0;

#if SD_SEQ == 6 /* ---------------- Stream Padding ---------------- */
	ASSUME(IN.pos <= 3 && IN.in_size <= 6); IN.concat = 1;
	ASSUME(IN.first == 0); /* reachable states: a Stream Header has been decoded before any padding */
	setup();
	const lzma_ret r = stream_decode(&C, NULL, IN.inb, &in_pos, IN.in_size, OUT, &out_pos, 0, (lzma_action)IN.action);
	/* reference: scan */
	size_t z = 0; while (z < IN.in_size && IN.inb[z] == 0) ++z;
	const size_t phase = (IN.pos + z) & 3;
	if (z == IN.in_size) {
		ASSERT(in_pos == IN.in_size && C.pos == phase, "zero bytes are counted modulo four across calls");
		if (IN.action != LZMA_FINISH) { ASSERT(r == LZMA_OK && C.sequence == SEQ_STREAM_PADDING, "more padding may follow"); REACH(pad_more); }
		else if (phase == 0) { ASSERT(r == LZMA_STREAM_END, "end of input after padding that is a multiple of four"); REACH(pad_end); }
		else { ASSERT(r == LZMA_DATA_ERROR, "end of input after padding that is NOT a multiple of four"); REACH(pad_bad_end); }
	} else if (phase != 0) {
		ASSERT(r == LZMA_DATA_ERROR && in_pos == z + 1, "a new Stream may only start after a multiple of four padding bytes");
		REACH(pad_misaligned);
	} else {
		/* a new Stream starts here: the byte is not consumed by the padding state */
		ASSERT(G.reset == 1, "decoder reset for the next Stream");
		if (IN.reset_fail) ASSERT(r == LZMA_MEM_ERROR && in_pos == z, "allocation failure while resetting");
		else { ASSERT(!C.first_stream && in_pos >= z, "the next Stream is not the first one; its first byte was left for the header state"); REACH(pad_new_stream); }
	}
	/* two-piece split of the same bytes gives the same result */
	{
		const lzma_ret r_one = r; const size_t pos_one = in_pos, cpos_one = C.pos; const int seq_one = C.sequence;
		setup();
		size_t p2 = 0;
		lzma_ret ra = stream_decode(&C, NULL, IN.inb, &p2, IN.k, OUT, &out_pos, 0, LZMA_RUN);
		lzma_ret rb = ra;
		if (ra == LZMA_OK && C.sequence == SEQ_STREAM_PADDING)
			rb = stream_decode(&C, NULL, IN.inb, &p2, IN.in_size, OUT, &out_pos, 0, (lzma_action)IN.action);
		if (z >= IN.k || phase != 0 || z == IN.in_size) /* (when the first piece already started a new Stream the header state takes over) */
			if (ra == LZMA_OK && C.sequence != SEQ_STREAM_HEADER && seq_one != SEQ_STREAM_HEADER)
				ASSERT(rb == r_one && p2 == pos_one && C.pos == cpos_one, "splitting the padding between two calls does not change the result");
	}
#elif SD_SEQ == 5 /* ---------------- Stream Footer ---------------- */
	ASSUME(IN.pos < 12);
	setup();
	const lzma_ret r = stream_decode(&C, NULL, IN.inb, &in_pos, IN.in_size, OUT, &out_pos, 0, (lzma_action)IN.action);
	if (IN.pos + IN.in_size < 12) {
		ASSERT(r == LZMA_OK && in_pos == IN.in_size && C.pos == IN.pos + IN.in_size && C.sequence == SEQ_STREAM_FOOTER && G.ftr == 0, "incomplete footer: buffered, never decoded, never success");
		REACH(ftr_partial);
	} else {
		ASSERT(G.ftr == 1, "footer decoded once, when complete");
		const bool good = IN.ftr_ret == LZMA_OK && IN.hash_size == IN.ftr_backward && IN.cmp_ret == LZMA_OK;
		if (!good) {
			ASSERT(r != LZMA_STREAM_END && r != LZMA_OK, "bad footer / Backward Size != Index size / header-footer flags differ: error");
			if (IN.ftr_ret == LZMA_FORMAT_ERROR) ASSERT(r == LZMA_DATA_ERROR, "bad footer magic is a data error");
			else if (IN.ftr_ret != LZMA_OK) ASSERT(r == (lzma_ret)IN.ftr_ret, "footer error propagated");
			else if (IN.hash_size != IN.ftr_backward) ASSERT(r == LZMA_DATA_ERROR && G.cmp == 0, "Backward Size must equal the size of the Index");
			else ASSERT(r == (lzma_ret)IN.cmp_ret, "flags mismatch");
			REACH(ftr_bad);
		} else if (!IN.concat) {
			ASSERT(r == LZMA_STREAM_END && in_pos == 12 - IN.pos, "single Stream: STREAM_END exactly after the footer");
			REACH(ftr_end);
		} else {
			ASSERT(r != LZMA_FORMAT_ERROR, "concatenated: continues with Stream Padding");
		}
	}
#elif SD_SEQ == 0 /* ---------------- Stream Header ---------------- */
	ASSUME(IN.pos < 12);
	setup();
	const lzma_ret r = stream_decode(&C, NULL, IN.inb, &in_pos, IN.in_size, OUT, &out_pos, 0, (lzma_action)IN.action);
	if (IN.pos + IN.in_size < 12) {
		ASSERT(r == LZMA_OK && in_pos == IN.in_size && C.pos == IN.pos + IN.in_size && G.hdr == 0, "incomplete header: buffered");
	} else {
		ASSERT(G.hdr == 1, "header decoded once");
		if (IN.hdr_ret != LZMA_OK) {
			ASSERT(r == ((IN.hdr_ret == LZMA_FORMAT_ERROR && !IN.first) ? LZMA_DATA_ERROR : (lzma_ret)IN.hdr_ret), "header error; wrong magic on a later Stream is a data error");
			REACH(hdr_error);
		} else {
			ASSERT(!C.first_stream && C.block_options.check == (lzma_check)IN.hdr_check, "check type for the Blocks comes from the Stream Header");
			if (IN.tell_no && IN.hdr_check == LZMA_CHECK_NONE) { ASSERT(r == LZMA_NO_CHECK && in_pos == 12 - IN.pos, "TELL_NO_CHECK"); REACH(hdr_no_check); }
			else if (IN.tell_unsup && !IN.check_supported) ASSERT(r == LZMA_UNSUPPORTED_CHECK, "TELL_UNSUPPORTED_CHECK");
			else if (IN.tell_any) { ASSERT(r == LZMA_GET_CHECK, "TELL_ANY_CHECK"); REACH(hdr_get_check); }
			else ASSERT(r != LZMA_NO_CHECK && r != LZMA_UNSUPPORTED_CHECK && r != LZMA_GET_CHECK, "no tell-code unless asked");
		}
	}
#elif SD_SEQ == 1 /* ---------------- Block Header -> init -> run ---------------- */
	ASSUME(IN.pos < 8);
	ASSUME(IN.pos == 0 || (IN.header_size >= 8 && IN.header_size <= 1024 && (IN.header_size & 3) == 0 && IN.pos < IN.header_size));
	setup();
	const lzma_ret r = stream_decode(&C, NULL, IN.inb, &in_pos, IN.in_size, OUT, &out_pos, 0, (lzma_action)IN.action);
	if (IN.in_size == 0) { ASSERT(r == LZMA_OK && in_pos == 0, "no input: wait"); return; }
	if (IN.pos == 0 && IN.inb[0] == 0x00) {
		ASSERT(G.bh == 0 && G.idx >= 1, "Index indicator at a Block Header boundary: the Index follows");
		REACH(blk_index);
		return;
	}
	const uint32_t hs = IN.pos == 0 ? ((uint32_t)IN.inb[0] + 1) * 4 : IN.header_size;
	ASSERT(hs <= LZMA_BLOCK_HEADER_SIZE_MAX && hs <= sizeof(C.buffer), "Block Header size fits the buffer");
	if (IN.pos + IN.in_size < hs) {
		ASSERT(r == LZMA_OK && C.sequence == SEQ_BLOCK_HEADER && C.pos == IN.pos + IN.in_size && G.bh == 0, "incomplete Block Header: buffered");
		REACH(blk_partial);
		return;
	}
	ASSERT(G.bh == 1 && G.bh_buf == (const void *)C.buffer, "Block Header decoded from the buffered bytes");
	if (IN.bh_ret != LZMA_OK) { ASSERT(r == (lzma_ret)IN.bh_ret && G.ffree == 0 && G.binit == 0, "Block Header error propagated"); return; }
	ASSERT(G.ffree == 1, "decoded filter options freed exactly once, on every path");
	ASSERT(C.block_options.filters == NULL, "no dangling pointer to the freed filter array");
	if (IN.raw_mem == UINT64_MAX) { ASSERT(r == LZMA_OPTIONS_ERROR && G.binit == 0, "unsupported filter chain"); }
	else if (IN.raw_mem > IN.memlimit) {
		ASSERT(r == LZMA_MEMLIMIT_ERROR && G.binit == 0 && C.memusage == IN.raw_mem && C.sequence == SEQ_BLOCK_INIT && C.pos == 0, "memory limit: nothing allocated, needed amount reported, state kept for a retry after lzma_memlimit_set");
		REACH(blk_memlimit);
	} else {
		ASSERT(G.binit == 1 && C.memusage == IN.raw_mem, "Block decoder initialised within the limit");
		if (IN.binit_ret != LZMA_OK) ASSERT(r == (lzma_ret)IN.binit_ret, "init error propagated");
		else if (G.brun >= 1 && IN.brun_ret == LZMA_STREAM_END) {
			ASSERT(G.app >= 1 && G.app_unp == IN.unpadded && G.app_unc == IN.uncomp, "finished Block recorded in the Index hash with its unpadded and uncompressed sizes");
			REACH(blk_done);
		}
	}
#endif
}
