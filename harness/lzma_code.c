/* C11: the lzma_code() calling protocol (src/liblzma/common/common.c). */

/*@obligation
id: C11.lzma_code.step
props: C11 C04 C12
entry: h_code_step
enforce: w_code_step
restrict: lzma_code.function_pointer_call.1/stub_code
kind: proof
fn: lzma_code
sentinels: 12
expect: 40
desc: one call of lzma_code from ANY handle contents (7 wrapper states and beyond, every action value incl. out of range, NULL/non-NULL buffers, reserved fields, every coder behaviour allowed by the generic coder contract) equals the reference model written from api/lzma/base.h: validation order, exact next_/avail_/total_ accounting, BUF_ERROR grace, state transitions, no internal code leaks; frame = six public fields + internal sequence/avail_in/allow_buf_error + what the coder itself writes
assume: the nested coder obeys the generic coder contract: consumes <= avail_in, produces <= avail_out, never returns LZMA_BUF_ERROR or an internal code other than LZMA_TIMED_OUT (stub_code is that contract as a nondeterministic body)
*/

/*@obligation
id: C11.lzma_code.twice
props: C11 C04 C05
entry: h_code_twice
restrict: lzma_code.function_pointer_call.1/stub_code
kind: proof
fn: lzma_code
sentinels: 5
expect: 20
desc: two consecutive symbolic lzma_code calls: STREAM_END is sticky; after a fatal error every call gives PROG_ERROR; BUF_ERROR only on the second consecutive no-progress call, is not fatal, and a following call with progress proceeds normally; changing action or avail_in after a flush/finish started gives PROG_ERROR
assume: same generic coder contract as C11.lzma_code.step
*/

/*@obligation
id: C11.strm_init
props: C11 C10
entry: h_strm_init
unwind: 8
cbmc: --malloc-may-fail --malloc-fail-null
kind: proof
fn: lzma_strm_init
sentinels: 3
expect: 10
replay: none
desc: lzma_strm_init: NULL handle gives PROG_ERROR; allocation failure gives MEM_ERROR with internal still NULL; on OK sequence=ISEQ_RUN, allow_buf_error=false, all supported_actions false, totals zero, an existing internal object is reused (next coder kept)
assume: malloc is CBMC's model (fresh object or NULL nondeterministically)
*/

#include "verif.h"
#include "liblzma/common/common.h"

/* lzma_strm_init uses the real lzma_alloc -> malloc; CBMC's malloc model may
 * return NULL nondeterministically (--malloc-may-fail --malloc-fail-null). */
#include "liblzma/common/common.c"

#define BUFN 8

struct call {
	uint8_t next_in_null, next_out_null; /* 0/1 (normalised by pre_call) */
	size_t avail_in, avail_out;
	uint64_t total_in, total_out;
	uint8_t rptr[4];
	uint64_t seek_pos, rint2;
	size_t rint3, rint4;
	uint32_t renum1, renum2;
	uint32_t action;
	/* behaviour of the nested coder in this call */
	uint32_t c_ret;
	size_t c_in, c_out;
	uint8_t c_byte;
};

struct in {
	struct call c1, c2;
	uint8_t internal_null, code_null;
	uint32_t sequence;
	size_t int_avail_in;
	uint8_t supported[5];
	uint8_t allow_buf_error;
	uint8_t alloc_fail;
	uint8_t strm_null;
};
static struct in IN VERIF_IN_INIT;

static uint8_t INBUF[BUFN], OUTBUF[BUFN];
static lzma_stream STRM;
static lzma_internal INT_OBJ;
static int DUMMY[4];

struct ghost {
	unsigned calls;
	const void *coder, *alloc;
	const uint8_t *in, *out;
	size_t in_pos, in_size, out_pos, out_size;
	lzma_action action;
};
static struct ghost G;
static const struct call *CUR;

/* The generic coder contract as a nondeterministic body. */
static lzma_ret stub_code(void *coder, const lzma_allocator *allocator,
		const uint8_t *restrict in, size_t *restrict in_pos, size_t in_size,
		uint8_t *restrict out, size_t *restrict out_pos, size_t out_size,
		lzma_action action)
{
	++G.calls;
	G.coder = coder; G.alloc = allocator; G.in = in; G.out = out;
	G.in_pos = *in_pos; G.in_size = in_size; G.out_pos = *out_pos; G.out_size = out_size;
	G.action = action;
	if (CUR->c_out > 0)
		out[*out_pos + CUR->c_out - 1] = CUR->c_byte;
	*in_pos += CUR->c_in;
	*out_pos += CUR->c_out;
	return (lzma_ret)CUR->c_ret;
}

static bool coder_ret_allowed(uint32_t r)
{
	return (r <= 12 && r != LZMA_BUF_ERROR) || r == LZMA_TIMED_OUT;
}

static bool is01(uint8_t b) { return b <= 1; }

static bool pre_call(const struct call *c)
{
	return is01(c->next_in_null) && is01(c->next_out_null) && is01(c->rptr[0]) && is01(c->rptr[1]) && is01(c->rptr[2]) && is01(c->rptr[3])
		&& (c->next_in_null || c->avail_in <= BUFN)
		&& (c->next_out_null || c->avail_out <= BUFN)
		&& c->c_in <= c->avail_in && c->c_out <= c->avail_out
		&& (c->c_in == 0 || !c->next_in_null) && (c->c_out == 0 || !c->next_out_null)
		&& coder_ret_allowed(c->c_ret)
		&& c->total_in <= UINT64_MAX - BUFN && c->total_out <= UINT64_MAX - BUFN;
}

static void setup_call(const struct call *c, bool keep_totals)
{
	STRM.next_in = c->next_in_null ? NULL : INBUF;
	STRM.avail_in = c->avail_in;
	STRM.next_out = c->next_out_null ? NULL : OUTBUF;
	STRM.avail_out = c->avail_out;
	if (!keep_totals) {
		STRM.total_in = c->total_in;
		STRM.total_out = c->total_out;
	}
	STRM.reserved_ptr1 = c->rptr[0] ? &DUMMY[0] : NULL;
	STRM.reserved_ptr2 = c->rptr[1] ? &DUMMY[1] : NULL;
	STRM.reserved_ptr3 = c->rptr[2] ? &DUMMY[2] : NULL;
	STRM.reserved_ptr4 = c->rptr[3] ? &DUMMY[3] : NULL;
	STRM.seek_pos = c->seek_pos;
	STRM.reserved_int2 = c->rint2;
	STRM.reserved_int3 = c->rint3;
	STRM.reserved_int4 = c->rint4;
	STRM.reserved_enum1 = (lzma_reserved_enum)c->renum1;
	STRM.reserved_enum2 = (lzma_reserved_enum)c->renum2;
	CUR = c;
}

static void setup_handle(void)
{
	STRM.internal = IN.internal_null ? NULL : &INT_OBJ;
	STRM.allocator = NULL;
	INT_OBJ.next = LZMA_NEXT_CODER_INIT;
	INT_OBJ.next.coder = &DUMMY[0];
	INT_OBJ.next.code = IN.code_null ? NULL : &stub_code;
	INT_OBJ.sequence = IN.sequence;
	INT_OBJ.avail_in = IN.int_avail_in;
	for (int i = 0; i < 5; ++i)
		INT_OBJ.supported_actions[i] = IN.supported[i];
	INT_OBJ.allow_buf_error = IN.allow_buf_error;
	G.calls = 0;
}

/* ---------------- reference model (from api/lzma/base.h + the property text) ---------------- */
enum { S_RUN, S_SYNC, S_FULL, S_FINISH, S_BARRIER, S_END, S_ERROR };

struct model {
	/* acceptable return values (two where the documents leave the precedence open) */
	uint32_t ret_a, ret_b;
	bool acts;          /* the coder is called (exactly once) */
	uint32_t seq;
	bool allow;
	size_t int_avail_in;
	size_t d_in, d_out;
};

static bool reserved_set(const struct call *c)
{
	return c->rptr[0] || c->rptr[1] || c->rptr[2] || c->rptr[3]
		|| c->rint2 != 0 || c->rint3 != 0 || c->rint4 != 0
		|| c->renum1 != 0 || c->renum2 != 0;
}

static uint32_t flush_state_of_action(uint32_t action)
{
	switch (action) {
	case LZMA_SYNC_FLUSH: return S_SYNC;
	case LZMA_FULL_FLUSH: return S_FULL;
	case LZMA_FINISH: return S_FINISH;
	case LZMA_FULL_BARRIER: return S_BARRIER;
	default: return S_RUN;
	}
}

/* state: (usable handle?, seq, allow, int_avail_in, supported[]) */
static struct model spec_code(const struct call *c, bool usable, uint32_t seq, bool allow,
		size_t int_avail, const uint8_t *supported)
{
	struct model m = { LZMA_PROG_ERROR, LZMA_PROG_ERROR, false, seq, allow, int_avail, 0, 0 };
	const bool bad_args = (c->next_in_null && c->avail_in != 0)
		|| (c->next_out_null && c->avail_out != 0)
		|| !usable || c->action > 4 || !supported[c->action > 4 ? 0 : c->action];
	const bool rsv = reserved_set(c);
	if (bad_args) {
		/* programming error; where the handle is also at end of stream or has
		 * reserved members set the documents do not fix which report wins */
		if (usable && seq == S_END) m.ret_b = LZMA_STREAM_END;
		if (usable && rsv) m.ret_b = LZMA_OPTIONS_ERROR;
		return m;
	}
	if (rsv) {
		m.ret_a = m.ret_b = LZMA_OPTIONS_ERROR;
		if (seq == S_END) m.ret_b = LZMA_STREAM_END;
		if (seq >= S_ERROR) m.ret_b = LZMA_PROG_ERROR;
		return m;
	}
	if (seq == S_END) {
		m.ret_a = m.ret_b = LZMA_STREAM_END;
		return m;
	}
	if (seq >= S_ERROR)
		return m;
	if (seq == S_RUN) {
		seq = flush_state_of_action(c->action);
	} else {
		/* a flush/finish is in progress: same action, same amount of input */
		if (flush_state_of_action(c->action) != seq || int_avail != c->avail_in)
			return m;
	}
	m.acts = true;
	m.d_in = c->c_in;
	m.d_out = c->c_out;
	m.int_avail_in = c->avail_in - c->c_in;
	uint32_t r = c->c_ret;
	m.allow = false;
	switch (r) {
	case LZMA_OK:
		if (c->c_in == 0 && c->c_out == 0) {
			if (allow) r = LZMA_BUF_ERROR;
			m.allow = true;
		}
		break;
	case LZMA_TIMED_OUT:
		r = LZMA_OK;
		break;
	case LZMA_SEEK_NEEDED:
		if (seq == S_FINISH) seq = S_RUN;
		break;
	case LZMA_STREAM_END:
		seq = (seq == S_SYNC || seq == S_FULL || seq == S_BARRIER) ? S_RUN : S_END;
		break;
	case LZMA_NO_CHECK: case LZMA_UNSUPPORTED_CHECK: case LZMA_GET_CHECK: case LZMA_MEMLIMIT_ERROR:
		break;
	default:
		seq = S_ERROR;
		break;
	}
	m.seq = seq;
	m.ret_a = m.ret_b = r;
	return m;
}

struct snap {
	const uint8_t *next_in; uint8_t *next_out;
	size_t avail_in, avail_out; uint64_t total_in, total_out;
	uint32_t seq; bool allow; size_t int_avail;
};
static struct snap PRE, PRE2;
static uint32_t R1, R2;
static struct model M2;

static void take_snap(struct snap *s)
{
	s->next_in = STRM.next_in; s->next_out = STRM.next_out;
	s->avail_in = STRM.avail_in; s->avail_out = STRM.avail_out;
	s->total_in = STRM.total_in; s->total_out = STRM.total_out;
	s->seq = INT_OBJ.sequence; s->allow = INT_OBJ.allow_buf_error; s->int_avail = INT_OBJ.avail_in;
}

static bool check_against_model(const struct call *c, const struct snap *pre, const struct model *m,
		uint32_t ret, unsigned calls_before)
{
	if (ret != m->ret_a && ret != m->ret_b)
		return false;
	if (ret >= 101) /* internal codes never reach the application */
		return false;
	if (G.calls != calls_before + (m->acts ? 1u : 0u))
		return false;
	if (m->acts) {
		if (G.in != pre->next_in || G.out != pre->next_out || G.in_pos != 0 || G.out_pos != 0
				|| G.in_size != pre->avail_in || G.out_size != pre->avail_out
				|| (uint32_t)G.action != c->action || G.coder != &DUMMY[0])
			return false;
	}
	if (STRM.avail_in != pre->avail_in - m->d_in || STRM.avail_out != pre->avail_out - m->d_out)
		return false;
	if (STRM.total_in != pre->total_in + m->d_in || STRM.total_out != pre->total_out + m->d_out)
		return false;
	if (pre->next_in != NULL ? STRM.next_in != pre->next_in + m->d_in : STRM.next_in != NULL)
		return false;
	if (pre->next_out != NULL ? STRM.next_out != pre->next_out + m->d_out : STRM.next_out != NULL)
		return false;
	if (!IN.internal_null) {
		/* the grace flag is irrelevant once the handle is in the fatal-error state */
		if (INT_OBJ.sequence != m->seq || (m->seq != S_ERROR && INT_OBJ.allow_buf_error != m->allow)
				|| INT_OBJ.avail_in != m->int_avail_in)
			return false;
	}
	return true;
}

/* ---------------- one step ---------------- */
static bool pre_handle(void)
{
	return is01(IN.internal_null) && is01(IN.code_null) && is01(IN.allow_buf_error) && is01(IN.alloc_fail) && is01(IN.strm_null)
		&& is01(IN.supported[0]) && is01(IN.supported[1]) && is01(IN.supported[2]) && is01(IN.supported[3]) && is01(IN.supported[4]);
}

static bool pre_step(void) { return pre_handle() && pre_call(&IN.c1); }

static bool post_step(lzma_ret r)
{
	const struct model m = spec_code(&IN.c1, !IN.internal_null && !IN.code_null, PRE.seq, PRE.allow,
			PRE.int_avail, IN.supported);
	return check_against_model(&IN.c1, &PRE, &m, (uint32_t)r, 0);
}

lzma_ret w_code_step(void)
REQUIRES(pre_step())
ENSURES(post_step(RET))
ASSIGNS(STRM.next_in, STRM.next_out, STRM.avail_in, STRM.avail_out, STRM.total_in, STRM.total_out,
	INT_OBJ.sequence, INT_OBJ.avail_in, INT_OBJ.allow_buf_error, G, OUTBUF)
{
	return lzma_code(&STRM, (lzma_action)IN.c1.action);
}

void h_code_step(void)
{
	HAVOC(IN, struct in);
	setup_handle();
	setup_call(&IN.c1, false);
	take_snap(&PRE);
	NATIVE_ASSUME(pre_step());
	lzma_ret r = w_code_step();
	NATIVE_ASSERT(post_step(r), "lzma_code step equals the reference model");
	REACH_IF(r == LZMA_PROG_ERROR && G.calls == 0, prog_error);
	REACH_IF(r == LZMA_OPTIONS_ERROR && G.calls == 0, options_error);
	REACH_IF(r == LZMA_STREAM_END && G.calls == 0, sticky_end);
	REACH_IF(r == LZMA_BUF_ERROR, buf_error);
	REACH_IF(r == LZMA_OK && G.calls == 1 && IN.c1.c_ret == LZMA_TIMED_OUT, timed_out);
	REACH_IF(r == LZMA_STREAM_END && G.calls == 1 && INT_OBJ.sequence == ISEQ_END, end_reached);
	REACH_IF(r == LZMA_STREAM_END && G.calls == 1 && INT_OBJ.sequence == ISEQ_RUN, flush_done);
	REACH_IF(r == LZMA_DATA_ERROR && INT_OBJ.sequence == ISEQ_ERROR, fatal);
	REACH_IF(r == LZMA_SEEK_NEEDED && PRE.seq == ISEQ_FINISH && INT_OBJ.sequence == ISEQ_RUN, seek);
	REACH_IF(r == LZMA_OK && STRM.total_in == PRE.total_in + BUFN && STRM.total_out == PRE.total_out + BUFN, full_progress);
	REACH_IF(G.calls == 1 && PRE.seq == ISEQ_SYNC_FLUSH, flush_continue);
	REACH_IF(r == LZMA_MEMLIMIT_ERROR && INT_OBJ.sequence == PRE.seq, memlimit_nonfatal);
}

/* ---------------- two steps ---------------- */
void h_code_twice(void)
{
	HAVOC(IN, struct in);
	ASSUME(pre_handle() && pre_call(&IN.c1) && pre_call(&IN.c2));
	ASSUME(!IN.internal_null && !IN.code_null && IN.sequence <= S_ERROR);
	setup_handle();
	setup_call(&IN.c1, false);
	R1 = lzma_code(&STRM, (lzma_action)IN.c1.action);
	const uint32_t seq1 = INT_OBJ.sequence;
	const bool acted1 = G.calls == 1;
	/* the application may change everything between calls except the totals;
	 * "well-formed" second call: consistent buffers, supported action, no reserved fields */
	setup_call(&IN.c2, true);
	take_snap(&PRE2);
	const unsigned calls1 = G.calls;
	R2 = lzma_code(&STRM, (lzma_action)IN.c2.action);
	const bool acted2 = G.calls == calls1 + 1;
	const bool wellformed2 = !(IN.c2.next_in_null && IN.c2.avail_in != 0)
		&& !(IN.c2.next_out_null && IN.c2.avail_out != 0)
		&& IN.c2.action <= 4 && IN.supported[IN.c2.action <= 4 ? IN.c2.action : 0] && !reserved_set(&IN.c2);

	/* after end of stream every further (well-formed) call reports end of stream, and does nothing */
	if (seq1 == S_END && wellformed2)
		ASSERT(R2 == LZMA_STREAM_END && !acted2, "STREAM_END is sticky");
	if (seq1 == S_END)
		ASSERT(!acted2 && STRM.total_in == PRE2.total_in && STRM.total_out == PRE2.total_out, "no coding after end of stream");
	/* after a fatal error: programming error, no action */
	if (seq1 == S_ERROR)
		ASSERT(!acted2 && (R2 == LZMA_PROG_ERROR || (R2 == LZMA_OPTIONS_ERROR && reserved_set(&IN.c2))), "fatal errors are sticky");
	if (acted1 && R1 != LZMA_OK && R1 != LZMA_STREAM_END && R1 != LZMA_NO_CHECK && R1 != LZMA_UNSUPPORTED_CHECK
			&& R1 != LZMA_GET_CHECK && R1 != LZMA_MEMLIMIT_ERROR && R1 != LZMA_SEEK_NEEDED && R1 != LZMA_BUF_ERROR)
		ASSERT(seq1 == S_ERROR, "every other coder result is fatal");
	/* BUF_ERROR only on the second consecutive no-progress call */
	if (R2 == LZMA_BUF_ERROR)
		ASSERT(acted2 && IN.c2.c_in == 0 && IN.c2.c_out == 0 && IN.c2.c_ret == LZMA_OK
				&& (!acted1 ? IN.allow_buf_error
					: (IN.c1.c_in == 0 && IN.c1.c_out == 0 && IN.c1.c_ret == LZMA_OK)),
				"BUF_ERROR needs two consecutive no-progress calls");
	if (acted1 && acted2 && (IN.c1.c_in != 0 || IN.c1.c_out != 0 || IN.c1.c_ret != LZMA_OK))
		ASSERT(R2 != LZMA_BUF_ERROR, "progress or a non-OK result clears the BUF_ERROR grace flag");
	/* BUF_ERROR is not fatal: the state is unchanged and a call that makes progress goes through */
	if (R1 == LZMA_BUF_ERROR) {
		ASSERT(seq1 == (IN.sequence == S_RUN ? flush_state_of_action(IN.c1.action) : IN.sequence), "BUF_ERROR leaves the sequence alone");
		if (wellformed2 && IN.c2.action == IN.c1.action && IN.c2.avail_in == STRM.avail_in + (acted2 ? IN.c2.c_in : 0)
				&& IN.c2.avail_in == PRE2.avail_in && PRE2.avail_in == PRE2.int_avail)
			ASSERT(acted2, "coding continues after BUF_ERROR");
	}
	/* a started flush/finish pins action and avail_in */
	if (seq1 >= S_SYNC && seq1 <= S_BARRIER && wellformed2
			&& (flush_state_of_action(IN.c2.action) != seq1 || IN.c2.avail_in != PRE2.int_avail))
		ASSERT(R2 == LZMA_PROG_ERROR && !acted2, "action/avail_in change during flush is a programming error");
	if (acted2) {
		ASSERT(STRM.total_in == PRE2.total_in + IN.c2.c_in && STRM.total_out == PRE2.total_out + IN.c2.c_out, "totals advance by bytes coded");
	}
	REACH_IF(seq1 == S_END && wellformed2, twice_end);
	REACH_IF(seq1 == S_ERROR, twice_error);
	REACH_IF(R2 == LZMA_BUF_ERROR && acted1, twice_buf_error);
	REACH_IF(R1 == LZMA_BUF_ERROR && acted2 && R2 == LZMA_OK && IN.c2.c_out > 0, twice_continue);
	REACH_IF(seq1 == S_FINISH && R2 == LZMA_PROG_ERROR && wellformed2, twice_pinned);
}

/* ---------------- lzma_strm_init ---------------- */
void h_strm_init(void)
{
	HAVOC(IN, struct in);
	ASSUME(pre_handle() && pre_call(&IN.c1));
	setup_handle();
	setup_call(&IN.c1, false);
	INT_OBJ.next.id = 77;
	lzma_ret r = lzma_strm_init(IN.strm_null ? NULL : &STRM);
	if (IN.strm_null) {
		ASSERT(r == LZMA_PROG_ERROR, "NULL handle is a programming error");
		return;
	}
	ASSERT(r == LZMA_OK || (r == LZMA_MEM_ERROR && IN.internal_null), "only OK, or MEM_ERROR when an allocation was needed");
	if (r == LZMA_MEM_ERROR) {
		ASSERT(STRM.internal == NULL, "allocation failure: handle stays uninitialised");
		REACH(init_mem_error);
		return;
	}
	ASSERT(STRM.internal != NULL, "internal object present");
	if (!IN.internal_null)
		ASSERT(STRM.internal == &INT_OBJ, "existing internal object reused");
	ASSERT(STRM.internal->sequence == ISEQ_RUN && !STRM.internal->allow_buf_error, "sequence and grace flag reset");
	for (int i = 0; i < 5; ++i)
		ASSERT(!STRM.internal->supported_actions[i], "no action supported until the coder init sets them");
	ASSERT(STRM.total_in == 0 && STRM.total_out == 0, "totals reset");
	if (IN.internal_null)
		ASSERT(STRM.internal->next.init == 0 && STRM.internal->next.coder == NULL && STRM.internal->next.code == NULL
			&& STRM.internal->next.id == LZMA_VLI_UNKNOWN, "fresh next coder is LZMA_NEXT_CODER_INIT");
	else
		ASSERT(STRM.internal->next.id == 77 && STRM.internal->next.coder == &DUMMY[0], "existing coder kept for reuse");
	REACH_IF(IN.internal_null, init_fresh);
	REACH_IF(!IN.internal_null, init_reuse);
}
