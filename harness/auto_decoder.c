/* Auto decoder (src/liblzma/common/auto_decoder.c): format detection and trailing-data rule: C16, C05, C09, C04. */

/*@obligation
id: C16.auto
props: C16 C05 C09 C04
entry: h_auto
unwind: 4
restrict: auto_decode.function_pointer_call.1/stub_code
fn: auto_decode auto_decoder_memconfig
sentinels: 7
expect: 20
desc: auto_decode from every state, every flag set, every first byte: 0xFD selects the .xz Stream decoder, 0x4C ('L') the .lz decoder, anything else the .lzma decoder in picky mode; each gets the caller's memory limit (and flags); for .lzma LZMA_TELL_NO_CHECK / LZMA_TELL_ANY_CHECK produce NO_CHECK / GET_CHECK (in that precedence) before any decoding; without LZMA_CONCATENATED the nested result is returned unchanged (the application sees where decoding stopped); with it, after the nested end any remaining input byte is DATA_ERROR and STREAM_END is returned only with LZMA_FINISH and no input left; no input in the initial state does nothing; memconfig forwards to the nested decoder or applies the base rule (new limit below usage refused, limit stored only on success)
assume: the three nested decoder init functions and the nested code/memconfig functions are recording stubs
*/

#include "verif.h"
#include "liblzma/common/common.h"

struct in {
	uint32_t seq, flags; uint64_t memlimit; uint8_t byte0; size_t in_size, c_in; uint32_t action, c_ret, init_ret;
	uint8_t has_memconfig; uint64_t new_limit; uint32_t mc_ret;
};
static struct in IN VERIF_IN_INIT;

static struct { unsigned xz, lz, alone, codes; uint64_t memlimit; uint32_t flags; bool picky; } GA;
static int NESTED;
static lzma_ret stub_code(void *c, const lzma_allocator *a, const uint8_t *restrict in, size_t *restrict ip, size_t is,
		uint8_t *restrict out, size_t *restrict op, size_t os, lzma_action act)
{ (void)c; (void)a; (void)in; (void)out; (void)op; (void)os; (void)act; ++GA.codes; size_t n = IN.c_in; if (n > is - *ip) n = is - *ip; *ip += n; return (lzma_ret)IN.c_ret; }
static lzma_ret stub_memconfig(void *c, uint64_t *mu, uint64_t *old, uint64_t nl) { (void)c; (void)nl; *mu = 1234; *old = IN.memlimit; return (lzma_ret)IN.mc_ret; }
static lzma_ret init_common(lzma_next_coder *n) { if (IN.init_ret != LZMA_OK) return (lzma_ret)IN.init_ret; n->coder = &NESTED; n->code = &stub_code; return LZMA_OK; }
lzma_ret lzma_stream_decoder_init(lzma_next_coder *n, const lzma_allocator *a, uint64_t m, uint32_t f) { (void)a; ++GA.xz; GA.memlimit = m; GA.flags = f; return init_common(n); }
lzma_ret lzma_lzip_decoder_init(lzma_next_coder *n, const lzma_allocator *a, uint64_t m, uint32_t f) { (void)a; ++GA.lz; GA.memlimit = m; GA.flags = f; return init_common(n); }
lzma_ret lzma_alone_decoder_init(lzma_next_coder *n, const lzma_allocator *a, uint64_t m, bool picky) { (void)a; ++GA.alone; GA.memlimit = m; GA.picky = picky; return init_common(n); }
void *lzma_alloc(size_t s, const lzma_allocator *a) { (void)s; (void)a; return NULL; }
void lzma_free(void *p, const lzma_allocator *a) { (void)p; (void)a; }
void lzma_next_end(lzma_next_coder *n, const lzma_allocator *a) { (void)a; *n = LZMA_NEXT_CODER_INIT; }
lzma_ret lzma_strm_init(lzma_stream *s) { (void)s; return LZMA_PROG_ERROR; }
void lzma_end(lzma_stream *s) { (void)s; }

#include "liblzma/common/auto_decoder.c"

static lzma_auto_coder C;
static uint8_t INB[4], OUT[4];
lzma_ret (*verif_keep_mc)(void *, uint64_t *, uint64_t *, uint64_t) = &stub_memconfig;

void h_auto(void)
{
	HAVOC(IN, struct in);
	ASSUME(IN.seq <= SEQ_FINISH && IN.in_size <= 4 && IN.action <= 4 && IN.c_ret <= 12 && IN.c_ret != LZMA_BUF_ERROR && IN.has_memconfig <= 1);
	ASSUME(IN.init_ret == LZMA_OK || IN.init_ret == LZMA_MEM_ERROR || IN.init_ret == LZMA_OPTIONS_ERROR);
	ASSUME((IN.flags & ~LZMA_SUPPORTED_FLAGS) == 0);
	memset(&C, 0, sizeof(C)); memset(&GA, 0, sizeof(GA));
	C.sequence = IN.seq; C.flags = IN.flags; C.memlimit = IN.memlimit; C.next = LZMA_NEXT_CODER_INIT;
	if (IN.seq != SEQ_INIT) { C.next.coder = &NESTED; C.next.code = &stub_code; }
	INB[0] = IN.byte0;
	size_t in_pos = 0, out_pos = 0;
	const lzma_ret r = auto_decode(&C, NULL, INB, &in_pos, IN.in_size, OUT, &out_pos, 4, (lzma_action)IN.action);
	const bool concat = (IN.flags & LZMA_CONCATENATED) != 0;
	bool nested_ran = IN.seq == SEQ_CODE;
	if (IN.seq == SEQ_INIT) {
		if (IN.in_size == 0) { ASSERT(r == LZMA_OK && GA.xz + GA.lz + GA.alone == 0 && C.sequence == SEQ_INIT, "no input yet: nothing decided"); REACH(auto_wait); return; }
		if (IN.byte0 == 0xFD) { ASSERT(GA.xz == 1 && GA.lz == 0 && GA.alone == 0 && GA.flags == IN.flags, ".xz: first byte 0xFD"); REACH(auto_xz); }
		else if (IN.byte0 == 0x4C) { ASSERT(GA.lz == 1 && GA.xz == 0 && GA.alone == 0 && GA.flags == IN.flags, ".lz: first byte 'L'"); REACH(auto_lz); }
		else { ASSERT(GA.alone == 1 && GA.xz == 0 && GA.lz == 0 && GA.picky, ".lzma: everything else, in picky mode"); REACH(auto_lzma); }
		ASSERT(GA.memlimit == IN.memlimit, "memory limit handed to the chosen decoder");
		if (IN.init_ret != LZMA_OK) { ASSERT(r == (lzma_ret)IN.init_ret && GA.codes == 0, "init error passed on"); return; }
		if (IN.byte0 != 0xFD && IN.byte0 != 0x4C) {
			if (IN.flags & LZMA_TELL_NO_CHECK) { ASSERT(r == LZMA_NO_CHECK && GA.codes == 0 && in_pos == 0, ".lzma has no integrity check: NO_CHECK if asked"); return; }
			if (IN.flags & LZMA_TELL_ANY_CHECK) { ASSERT(r == LZMA_GET_CHECK && GA.codes == 0 && in_pos == 0, "GET_CHECK if asked"); return; }
		}
		nested_ran = true;
	}
	if (nested_ran) {
		ASSERT(GA.codes == 1, "nested decoder runs");
		if (IN.c_ret != LZMA_STREAM_END || !concat) { ASSERT(r == (lzma_ret)IN.c_ret, "nested result returned unchanged"); REACH_IF(IN.c_ret == LZMA_STREAM_END, auto_single_end); return; }
	}
	/* concatenated mode after the nested end */
	ASSERT(C.sequence == SEQ_FINISH, "waiting for the end of input");
	if (in_pos < IN.in_size) { ASSERT(r == LZMA_DATA_ERROR, "trailing garbage after the last stream in LZMA_CONCATENATED mode"); REACH(auto_trailing); }
	else ASSERT(r == (IN.action == LZMA_FINISH ? LZMA_STREAM_END : LZMA_OK), "STREAM_END only once the application says the input is finished");
	REACH_IF(r == LZMA_STREAM_END, auto_concat_end);

	/* memconfig */
	uint64_t mu = 0, old = 0;
	C.memlimit = IN.memlimit;
	C.next.memconfig = IN.has_memconfig ? &stub_memconfig : NULL;
	ASSUME(IN.mc_ret == LZMA_OK || IN.mc_ret == LZMA_MEMLIMIT_ERROR);
	const lzma_ret m = auto_decoder_memconfig(&C, &mu, &old, IN.new_limit);
	ASSERT(old == IN.memlimit, "old limit reported");
	if (!IN.has_memconfig) {
		ASSERT(mu == LZMA_MEMUSAGE_BASE && m == ((IN.new_limit != 0 && IN.new_limit < LZMA_MEMUSAGE_BASE) ? LZMA_MEMLIMIT_ERROR : LZMA_OK), "before a format is chosen: base usage; a limit below it is refused");
	} else ASSERT(m == (lzma_ret)IN.mc_ret, "forwarded to the nested decoder");
	ASSERT(C.memlimit == ((m == LZMA_OK && IN.new_limit != 0) ? IN.new_limit : IN.memlimit), "the limit changes only when accepted");
}
