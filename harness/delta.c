/* Delta filter (src/liblzma/delta/*.c): C15, C04. */

/*@obligation
id: C15.delta.step
props: C15 C04 C06
entry: h_delta
unwind: 6
fn: copy_and_encode encode_in_place decode_buffer
sentinels: 2
expect: 20
timeout: 900
desc: delta filter on 1..4 bytes from ANY 256-byte history, ANY history position and EVERY distance 1..256: encoder output byte i = input byte i minus the byte 'distance' positions earlier (taken from the input for i >= distance, from the history otherwise); copy_and_encode and encode_in_place produce identical bytes and identical histories; decoding the encoder's output from the same starting history returns the input and leaves decoder history == encoder history (the two stay in lock step, so the round trip holds for every length by induction on these steps); length is preserved; nothing but history, pos and the buffer changes
*/
/*@obligation
id: C15.delta.coder
props: C15 C12 C04
entry: h_delta_coder
unwind: 10
restrict: delta_encode.function_pointer_call.1/stub_code delta_decode.function_pointer_call.1/stub_code
fn: delta_encode delta_decode
sentinels: 3
expect: 20
desc: delta_encode / delta_decode around the next coder: as last filter the encoder filters exactly min(input, output room) bytes, advances both positions by that amount and reports STREAM_END only when a non-RUN action has consumed all input; with a next coder only the bytes that coder produced in this call are filtered, and its return code and the action (incl. LZMA_SYNC_FLUSH) pass through unchanged
assume: the next coder is a stub producing any amount within its buffers
*/

#include "verif.h"
#include "liblzma/common/common.h"
lzma_ret lzma_delta_coder_init(lzma_next_coder *n, const lzma_allocator *a, const lzma_filter_info *f) { (void)n; (void)a; (void)f; return LZMA_OK; }
lzma_ret lzma_next_filter_update(lzma_next_coder *n, const lzma_allocator *a, const lzma_filter *f) { (void)n; (void)a; (void)f; return LZMA_OK; }
void *lzma_alloc(size_t s, const lzma_allocator *a) { (void)s; (void)a; return NULL; }
#include "liblzma/delta/delta_encoder.c"
#include "liblzma/delta/delta_decoder.c"

struct in {
	uint8_t hist[256]; uint8_t pos; uint32_t distance; uint8_t data[4]; size_t n;
	size_t in_size, out_size, c_in, c_out; uint32_t action, c_ret; uint8_t has_next;
};
static struct in IN VERIF_IN_INIT;

static void mk(lzma_delta_coder *c)
{
	memset(c, 0, sizeof(*c));
	c->distance = IN.distance; c->pos = IN.pos; memcpy(c->history, IN.hist, 256);
	c->next = LZMA_NEXT_CODER_INIT;
}

void h_delta(void)
{
	HAVOC(IN, struct in);
	ASSUME(IN.distance >= 1 && IN.distance <= 256 && IN.n >= 1 && IN.n <= 4);
	static lzma_delta_coder E1, E2, D;
	mk(&E1); mk(&E2); mk(&D);
	uint8_t o1[4], o2[4];
	memcpy(o2, IN.data, 4);
	copy_and_encode(&E1, IN.data, o1, IN.n);
	encode_in_place(&E2, o2, IN.n);
	for (size_t i = 0; i < 4; ++i) {
		if (i >= IN.n) break;
		const uint8_t prev = i >= IN.distance ? IN.data[i - IN.distance] : IN.hist[(uint8_t)(IN.pos - i + IN.distance)];
		ASSERT(o1[i] == (uint8_t)(IN.data[i] - prev), "delta encoding: byte minus the byte 'distance' positions earlier");
		ASSERT(o2[i] == o1[i], "in-place and copying encoders agree");
	}
	ASSERT(E1.pos == (uint8_t)(IN.pos - IN.n) && E2.pos == E1.pos && E1.distance == IN.distance, "history position moves by the byte count");
	REACH_IF(IN.distance == 256 && IN.n == 4, delta_max_distance);
	REACH_IF(IN.distance == 1, delta_min_distance);
	decode_buffer(&D, o1, IN.n);
	for (size_t i = 0; i < 4; ++i) if (i < IN.n) ASSERT(o1[i] == IN.data[i], "decode(encode(x)) == x from the same history");
	ASSERT(D.pos == E1.pos, "decoder position in lock step");
	/* histories equal: checked at an arbitrary index */
	const uint8_t k = IN.hist[0] ^ IN.data[0];
	ASSERT(D.history[k] == E1.history[k] && E2.history[k] == E1.history[k], "decoder history == encoder history after the step (simulation invariant)");
}

static struct { unsigned codes; } GD;
static int NESTED;
static lzma_ret stub_code(void *c, const lzma_allocator *a, const uint8_t *restrict in, size_t *restrict ip, size_t is,
		uint8_t *restrict out, size_t *restrict op, size_t os, lzma_action act)
{
	(void)c; (void)a; (void)in; (void)act; ++GD.codes;
	size_t n = IN.c_in; if (n > is - *ip) n = is - *ip;
	size_t m = IN.c_out; if (m > os - *op) m = os - *op;
	for (size_t k = 0; k < m; ++k) out[*op + k] = IN.data[k & 3];
	*ip += n; *op += m;
	return (lzma_ret)IN.c_ret;
}
lzma_code_function verif_keep_dc = &stub_code;

void h_delta_coder(void)
{
	HAVOC(IN, struct in);
	ASSUME(IN.distance >= 1 && IN.distance <= 256 && IN.in_size <= 4 && IN.out_size <= 4 && IN.action <= 4 && IN.c_ret <= 12 && IN.has_next <= 1);
	static lzma_delta_coder E;
	mk(&E);
	if (IN.has_next) { E.next.coder = &NESTED; E.next.code = &stub_code; }
	uint8_t out[4]; memset(out, 0xEE, 4);
	size_t in_pos = 0, out_pos = 0; GD.codes = 0;
	const lzma_ret r = delta_encode(&E, NULL, IN.data, &in_pos, IN.in_size, out, &out_pos, IN.out_size, (lzma_action)IN.action);
	if (!IN.has_next) {
		const size_t n = IN.in_size < IN.out_size ? IN.in_size : IN.out_size;
		ASSERT(in_pos == n && out_pos == n, "filters min(input, output room) bytes; length preserved");
		ASSERT(r == ((IN.action != LZMA_RUN && n == IN.in_size) ? LZMA_STREAM_END : LZMA_OK), "STREAM_END only when a flush/finish action has consumed all input");
		ASSERT(E.pos == (uint8_t)(IN.pos - n), "history advanced by the bytes filtered");
		for (size_t k = 0; k < 4; ++k) if (k >= n) ASSERT(out[k] == 0xEE, "nothing written past the filtered bytes");
		REACH(delta_last_filter);
	} else {
		size_t m = IN.c_out; if (m > IN.out_size) m = IN.out_size;
		ASSERT(GD.codes == 1 && r == (lzma_ret)IN.c_ret && out_pos == m, "return code of the next coder passes through");
		ASSERT(E.pos == (uint8_t)(IN.pos - m), "only the bytes produced in this call are filtered");
		REACH(delta_with_next);
	}
	/* decoder side */
	static lzma_delta_coder D; mk(&D); D.next.coder = &NESTED; D.next.code = &stub_code;
	memset(out, 0xEE, 4); in_pos = 0; out_pos = 0; GD.codes = 0;
	const lzma_ret rd = delta_decode(&D, NULL, IN.data, &in_pos, IN.in_size, out, &out_pos, IN.out_size, (lzma_action)IN.action);
	size_t m = IN.c_out; if (m > IN.out_size) m = IN.out_size;
	ASSERT(rd == (lzma_ret)IN.c_ret && out_pos == m && D.pos == (uint8_t)(IN.pos - m), "decoder filters exactly what the next coder produced; code passes through");
	REACH(delta_decode_done);
}
