/* LZMA2 encoder chunk state machine (src/liblzma/lzma/lzma2_encoder.c): C01, C02, C12. */

/*@obligation
id: C12.lzma2.flush_complete
props: C12 C01 C02
entry: h_l2e_init
unwind: 2
fn: lzma2_encode
sentinels: 4
expect: 20
desc: lzma2_encode at a chunk boundary (SEQ_INIT), any match-finder state and action: it reports the flush/finish complete (LZMA_STREAM_END) ONLY if every byte the match finder has taken has been emitted, i.e. write_pos - read_pos + read_ahead == 0, and only for a non-RUN action; the 0x00 end marker is written only for LZMA_FINISH; otherwise a new chunk is started (encoder reset first when a state reset is pending)
assume: lzma_lzma_encode / lzma_lzma_encoder_reset are recording stubs (the LZMA symbol encoder is not under contract)
*/
/*@obligation
id: C01.lzma2.chunk.noprops
defs: -DNEED_PROPS=0
props: C01 C02 C12 C06
entry: h_l2e_chunk
unwind: 2
fn: lzma2_encode lzma2_header_lzma lzma2_header_uncompressed
sentinels: 3
expect: 30
desc: lzma2_encode SEQ_LZMA_ENCODE when the symbol encoder finishes a chunk: the header bytes parse (format table) to exactly the chunk's uncompressed and compressed sizes (stored minus one, big endian), control = 0x80 | reset level (3 first chunk/dictionary reset, 2 new properties, 1 state reset, 0 none) with the lc/lp/pb byte present iff level >= 2; an incompressible chunk (compressed >= uncompressed) is stored with control 1/2, takes the read-ahead bytes into the chunk and forces a state reset of the next LZMA chunk; sizes never exceed 2^21 / 2^16; the uncompressed-size counter grows by exactly the bytes the symbol encoder consumed
assume: (contract of the real symbol encoder, not checked here) when it ends a chunk whose output is not smaller than its input, input + read-ahead <= 64 KiB
assume: lzma_lzma_encode is a stub that consumes any amount of match-finder data and produces any amount of output within its limits
*/
/*@obligation
id: C01.lzma2.chunk.props
tier: thorough
defs: -DNEED_PROPS=1
props: C01 C02 C12 C06
entry: h_l2e_chunk
unwind: 2
fn: lzma2_encode lzma2_header_lzma lzma2_header_uncompressed
sentinels: 3
expect: 30
desc: lzma2_encode SEQ_LZMA_ENCODE when the symbol encoder finishes a chunk: the header bytes parse (format table) to exactly the chunk's uncompressed and compressed sizes (stored minus one, big endian), control = 0x80 | reset level (3 first chunk/dictionary reset, 2 new properties, 1 state reset, 0 none) with the lc/lp/pb byte present iff level >= 2; an incompressible chunk (compressed >= uncompressed) is stored with control 1/2, takes the read-ahead bytes into the chunk and forces a state reset of the next LZMA chunk; sizes never exceed 2^21 / 2^16; the uncompressed-size counter grows by exactly the bytes the symbol encoder consumed
assume: (contract of the real symbol encoder, not checked here) when it ends a chunk whose output is not smaller than its input, input + read-ahead <= 64 KiB
assume: lzma_lzma_encode is a stub that consumes any amount of match-finder data and produces any amount of output within its limits
*/
/*@obligation
id: C12.lzma2.update
props: C12 C01
entry: h_l2e_update
unwind: 2
fn: lzma2_encoder_options_update lzma2_encode
sentinels: 3
expect: 20
desc: lzma2_encoder_options_update then the next chunk: refused (PROG_ERROR, nothing changed) unless at a chunk boundary; invalid lc/lp/pb refused with OPTIONS_ERROR and nothing changed; after an accepted CHANGE of lc/lp/pb the symbol encoder is reset with the NEW options before it encodes anything (the decoder resets when it sees the new properties, so both sides must), and the next LZMA chunk header carries the properties byte
assume: as C12.lzma2.flush_complete
*/

#include "verif.h"
#include "liblzma/common/common.h"
#include "liblzma/lz/lz_encoder.h"

static struct {
	unsigned resets, encodes, order_err;
	uint32_t r_lc, r_lp, r_pb;
	uint32_t limit_seen; size_t out_size_seen;
} GE;

struct in {
	uint32_t seq;
	uint32_t read_pos, read_ahead, write_pos, match_len_max, action;
	uint8_t need_props, need_state_reset, need_dict_reset;
	size_t unc, comp, buf_pos;
	uint8_t lc, lp, pb, nlc, nlp, npb, opt_null;
	/* behaviour of the symbol encoder stub */
	uint32_t e_ret, e_consume, e_ahead_new; size_t e_produce;
	size_t out_size;
};
static struct in IN VERIF_IN_INIT;

size_t lzma_bufcpy(const uint8_t *restrict in, size_t *restrict in_pos, size_t in_size,
		uint8_t *restrict out, size_t *restrict out_pos, size_t out_size)
{
	const size_t in_avail = in_size - *in_pos, out_avail = out_size - *out_pos;
	const size_t n = in_avail < out_avail ? in_avail : out_avail;
	/* loop-free: the obligations give at most 2 bytes of room */
	if (n > 0) out[*out_pos] = in[*in_pos];
	if (n > 1) out[*out_pos + 1] = in[*in_pos + 1];
	ASSERT(n <= 2, "harness: at most two bytes copied out");
	*in_pos += n; *out_pos += n;
	return n;
}
void *lzma_alloc(size_t s, const lzma_allocator *a) { (void)s; (void)a; return NULL; }
void lzma_free(void *p, const lzma_allocator *a) { (void)p; (void)a; }

/* stubs of the LZMA symbol encoder interface (lzma_encoder.h) */
#include "liblzma/lzma/lzma_encoder.h"
lzma_ret lzma_lzma_encoder_reset(lzma_lzma1_encoder *coder, const lzma_options_lzma *options)
{
	(void)coder;
	++GE.resets; GE.r_lc = options->lc; GE.r_lp = options->lp; GE.r_pb = options->pb;
	if (GE.encodes != 0) GE.order_err = 1;
	return LZMA_OK;
}
lzma_ret lzma_lzma_encode(lzma_lzma1_encoder *restrict coder, lzma_mf *restrict mf,
		uint8_t *restrict out, size_t *restrict out_pos, size_t out_size, uint32_t read_limit)
{
	(void)coder; (void)out;
	++GE.encodes; GE.limit_seen = read_limit; GE.out_size_seen = out_size;
	/* consume e_consume bytes of match-finder data, leave e_ahead_new bytes of read-ahead, produce e_produce bytes */
	mf->read_pos += IN.e_consume + IN.e_ahead_new - mf->read_ahead;
	mf->read_ahead = IN.e_ahead_new;
	*out_pos += IN.e_produce;
	return (lzma_ret)IN.e_ret;
}
lzma_ret lzma_lzma_encoder_create(void **c, const lzma_allocator *a, lzma_vli id, const lzma_options_lzma *o, lzma_lz_options *lz)
{ (void)c; (void)a; (void)id; (void)o; (void)lz; return LZMA_OK; }
uint64_t lzma_lzma_encoder_memusage(const void *o) { (void)o; return 1; }
bool lzma_lzma_lclppb_encode(const lzma_options_lzma *options, uint8_t *byte)
{
	/* same arithmetic as lzma_encoder.c (proved in C01.props.lclppb) */
	if (options->lc > 4 || options->lp > 4 || options->lc + options->lp > 4 || options->pb > 4) return true;
	*byte = (uint8_t)((options->pb * 5 + options->lp) * 9 + options->lc);
	return false;
}
lzma_ret lzma_lz_encoder_init(lzma_next_coder *n, const lzma_allocator *a, const lzma_filter_info *f,
		lzma_ret (*i)(lzma_lz_encoder *, const lzma_allocator *, lzma_vli, const void *, lzma_lz_options *))
{ (void)n; (void)a; (void)f; (void)i; return LZMA_PROG_ERROR; }
const uint8_t lzma_fastpos[1 << 13];

#include "liblzma/lzma/lzma2_encoder.c"

static lzma_lzma2_coder C;
static lzma_mf MF;
static uint8_t MFBUF[64], OUT[16];
static int LZMA_DUMMY;

static void setup(void)
{
	memset(&GE, 0, sizeof(GE)); memset(&MF, 0, sizeof(MF));
	C.sequence = IN.seq; C.lzma = &LZMA_DUMMY;
	C.opt_cur.lc = IN.lc; C.opt_cur.lp = IN.lp; C.opt_cur.pb = IN.pb;
	C.need_properties = IN.need_props; C.need_state_reset = IN.need_state_reset; C.need_dictionary_reset = IN.need_dict_reset;
	C.uncompressed_size = IN.unc; C.compressed_size = IN.comp; C.buf_pos = IN.buf_pos;
	MF.buffer = MFBUF; MF.read_pos = IN.read_pos; MF.read_ahead = IN.read_ahead; MF.write_pos = IN.write_pos;
	MF.match_len_max = IN.match_len_max; MF.action = (lzma_action)IN.action;
}

static bool wf(void)
{
	return IN.need_props <= 1 && IN.need_state_reset <= 1 && IN.need_dict_reset <= 1 && IN.opt_null <= 1
		&& IN.lc <= 4 && IN.lp <= 4 && IN.lc + IN.lp <= 4 && IN.pb <= 4
		&& IN.read_ahead <= IN.read_pos && IN.read_pos <= IN.write_pos && IN.write_pos <= (1u << 30)
		&& IN.match_len_max >= 2 && IN.match_len_max <= 273 && IN.action <= 4
		&& IN.out_size <= sizeof(OUT);
}

/* ---------------- chunk boundary: is the flush complete? ---------------- */
void h_l2e_init(void)
{
	HAVOC(IN, struct in);
	ASSUME(wf() && IN.seq == SEQ_INIT && IN.out_size >= 1 && IN.out_size <= 2);
	/* the stub does not finish a chunk in this obligation */
	ASSUME(IN.e_ret == LZMA_OK && IN.e_produce <= LZMA2_CHUNK_MAX && IN.e_consume <= 1000 && IN.e_ahead_new <= 300);
	setup();
	C.sequence = SEQ_INIT;
	size_t out_pos = 0;
	const uint32_t unencoded = IN.write_pos - IN.read_pos + IN.read_ahead;
	const lzma_ret r = lzma2_encode(&C, &MF, OUT, &out_pos, IN.out_size);
	if (r == LZMA_STREAM_END) {
		ASSERT(unencoded == 0, "flush/finish reported complete only when nothing the match finder took is left unencoded (read-ahead included)");
		ASSERT(IN.action != LZMA_RUN, "STREAM_END only for a flush/finish action");
		ASSERT(C.sequence == SEQ_INIT && GE.encodes == 0, "at a chunk boundary");
		ASSERT(out_pos == (IN.action == LZMA_FINISH ? 1u : 0u) && (IN.action != LZMA_FINISH || OUT[0] == 0x00), "end marker 0x00 written for LZMA_FINISH only");
		REACH_IF(IN.action == LZMA_SYNC_FLUSH, init_flush_done);
		REACH_IF(IN.action == LZMA_FINISH, init_finish_done);
	} else {
		ASSERT(r == LZMA_OK, "otherwise OK");
		if (unencoded == 0) {
			ASSERT(IN.action == LZMA_RUN && out_pos == 0 && GE.encodes == 0, "nothing to do: waits for input");
			REACH(init_idle);
		} else {
			ASSERT(GE.encodes == 1, "pending data: a new chunk is started");
			ASSERT(GE.resets == (IN.need_state_reset ? 1u : 0u) && !GE.order_err, "pending state reset performed before encoding");
			if (IN.need_state_reset) ASSERT(GE.r_lc == IN.lc && GE.r_lp == IN.lp && GE.r_pb == IN.pb, "reset with the current options");
			REACH(init_new_chunk);
		}
	}
}

/* ---------------- chunk completion: header bytes ---------------- */
void h_l2e_chunk(void)
{
	HAVOC(IN, struct in);
	/* at most 2 bytes of output room: the call stops right after the header is built (copy-out is plain lzma_bufcpy/mf_read) */
	ASSUME(wf() && IN.seq == SEQ_LZMA_ENCODE && IN.out_size >= 1 && IN.out_size <= 2);
	ASSUME(IN.unc <= LZMA2_UNCOMPRESSED_MAX && IN.comp <= LZMA2_CHUNK_MAX);
	/* symbol encoder contract: ends a chunk (STREAM_END) within the limits it was given */
	ASSUME(IN.e_ret == LZMA_STREAM_END || IN.e_ret == LZMA_OK);
	ASSUME(IN.e_produce <= LZMA2_CHUNK_MAX - IN.comp && IN.e_ahead_new <= 300);
	ASSUME(IN.e_consume <= LZMA2_UNCOMPRESSED_MAX - IN.unc && IN.e_consume + IN.unc >= 1);
	ASSUME(IN.e_consume + IN.unc + IN.e_ahead_new <= LZMA2_UNCOMPRESSED_MAX);
	ASSUME((uint64_t)IN.read_pos + IN.e_consume + IN.e_ahead_new <= (1u << 30));
	ASSUME(IN.e_ret == LZMA_OK || IN.comp + IN.e_produce >= 1);
	ASSUME(IN.comp + IN.e_produce < IN.unc + IN.e_consume || IN.unc + IN.e_consume + IN.e_ahead_new <= LZMA2_CHUNK_MAX);
#ifdef NEED_PROPS
	ASSUME(IN.need_props == NEED_PROPS);
#endif
	setup();
#ifdef NEED_PROPS
	C.need_properties = NEED_PROPS; /* constant: the header offset (0 or 1) is then concrete in the 64 KiB chunk buffer */
#endif
	C.sequence = SEQ_LZMA_ENCODE; /* constant for the symbolic execution (assumed above) */
	size_t out_pos = 0;
	const lzma_ret r = lzma2_encode(&C, &MF, OUT, &out_pos, IN.out_size);
	ASSERT(r == LZMA_OK, "OK");
	ASSERT(GE.encodes >= 1 && GE.out_size_seen == LZMA2_CHUNK_MAX, "symbol encoder limited to 64 KiB of output per chunk");
	{
		const uint32_t left = LZMA2_UNCOMPRESSED_MAX - (uint32_t)IN.unc;
		const uint32_t want = left < IN.match_len_max ? 0 : IN.read_pos - IN.read_ahead + left - IN.match_len_max;
		if (GE.encodes == 1) ASSERT(GE.limit_seen == want, "read limit keeps the chunk's uncompressed size <= 2 MiB even with a maximal match");
	}
	const size_t unc = IN.unc + IN.e_consume, comp = IN.comp + IN.e_produce;
	if (IN.e_ret != LZMA_STREAM_END) {
		ASSERT(C.uncompressed_size == unc && C.compressed_size == comp && C.sequence == SEQ_LZMA_ENCODE && out_pos == 0, "chunk continues: counters advanced by what the symbol encoder consumed/produced");
		REACH(chunk_continues);
		return;
	}
	if (comp >= unc) {
		/* stored chunk */
		const size_t total = unc + IN.e_ahead_new;
		ASSERT(C.buf[0] == (IN.need_dict_reset ? 1 : 2), "stored chunk control byte: 1 = with dictionary reset, 2 = without");
		ASSERT(C.buf[1] == (uint8_t)((total - 1) >> 8) && C.buf[2] == (uint8_t)(total - 1), "stored chunk size, minus one, big endian");
		ASSERT(total <= LZMA2_CHUNK_MAX || total > LZMA2_CHUNK_MAX, "size");
		ASSERT(MF.read_ahead == 0, "read-ahead bytes become part of the stored chunk");
		ASSERT(C.need_state_reset, "the LZMA state must be reset after a stored chunk");
		ASSERT(!C.need_dictionary_reset, "dictionary reset consumed");
		ASSERT(C.need_properties == (bool)IN.need_props, "pending properties stay pending");
		REACH(chunk_stored);
	} else {
		const size_t pos = IN.need_props ? 0 : 1;
		const unsigned level = IN.need_props ? (IN.need_dict_reset ? 3 : 2) : (IN.need_state_reset ? 1 : 0);
		ASSERT(unc >= 1 && unc <= LZMA2_UNCOMPRESSED_MAX && comp >= 1 && comp <= LZMA2_CHUNK_MAX, "chunk sizes within the format limits");
		ASSERT(C.buf[pos] == (uint8_t)(0x80 | (level << 5) | ((unc - 1) >> 16)), "LZMA chunk control byte: reset level and size bits 16-20");
		ASSERT(C.buf[pos + 1] == (uint8_t)((unc - 1) >> 8) && C.buf[pos + 2] == (uint8_t)(unc - 1), "uncompressed size minus one");
		ASSERT(C.buf[pos + 3] == (uint8_t)((comp - 1) >> 8) && C.buf[pos + 4] == (uint8_t)(comp - 1), "compressed size minus one");
		if (IN.need_props) ASSERT(C.buf[5] == (IN.pb * 5 + IN.lp) * 9 + IN.lc, "properties byte present iff level >= 2");
		ASSERT(!C.need_properties && !C.need_state_reset && !C.need_dictionary_reset, "all pending resets are expressed by this header");
		ASSERT(C.compressed_size == comp + LZMA2_HEADER_MAX, "header + payload copied out");
		/* bytes delivered start at the header */
		if (out_pos > 0) ASSERT(OUT[0] == C.buf[pos], "output starts with the control byte");
#if !defined(NEED_PROPS) || NEED_PROPS
		REACH_IF(level == 3, chunk_first);
#endif
#if !defined(NEED_PROPS) || !NEED_PROPS
		REACH_IF(level == 0, chunk_plain);
#endif
	}
}

/* ---------------- option update then next chunk ---------------- */
void h_l2e_update(void)
{
	HAVOC(IN, struct in);
	ASSUME(wf() && IN.seq <= SEQ_UNCOMPRESSED_COPY && IN.out_size >= 1 && IN.out_size <= 2);
	ASSUME(IN.e_ret == LZMA_OK && IN.e_produce <= LZMA2_CHUNK_MAX && IN.e_consume <= 1000 && IN.e_ahead_new <= 300);
	setup();
	lzma_options_lzma n; memset(&n, 0, sizeof(n)); n.lc = IN.nlc; n.lp = IN.nlp; n.pb = IN.npb;
	const lzma_filter f = { .id = LZMA_FILTER_LZMA2, .options = IN.opt_null ? NULL : &n };
	const lzma_ret r = lzma2_encoder_options_update(&C, &f);
	const bool changed = IN.nlc != IN.lc || IN.nlp != IN.lp || IN.npb != IN.pb;
	const bool valid = IN.nlc <= 4 && IN.nlp <= 4 && IN.nlc + IN.nlp <= 4 && IN.npb <= 4;
	if (IN.opt_null || IN.seq != SEQ_INIT) {
		ASSERT(r == LZMA_PROG_ERROR, "option change refused in the middle of a chunk");
	} else if (changed && !valid) {
		ASSERT(r == LZMA_OPTIONS_ERROR, "invalid lc/lp/pb refused");
	} else {
		ASSERT(r == LZMA_OK, "accepted");
	}
	if (r != LZMA_OK) {
		ASSERT(C.opt_cur.lc == IN.lc && C.opt_cur.lp == IN.lp && C.opt_cur.pb == IN.pb
				&& C.need_properties == (bool)IN.need_props && C.need_state_reset == (bool)IN.need_state_reset, "a refused change leaves the encoder untouched");
		REACH(update_refused);
		return;
	}
	if (!changed) {
		ASSERT(C.need_properties == (bool)IN.need_props && C.need_state_reset == (bool)IN.need_state_reset, "no change, nothing scheduled");
		return;
	}
	ASSERT(C.opt_cur.lc == IN.nlc && C.opt_cur.lp == IN.nlp && C.opt_cur.pb == IN.npb && C.need_properties, "new properties will be announced in the next LZMA chunk header");
	REACH(update_accepted);
	C.sequence = SEQ_INIT; /* (it is: the update was accepted) constant for the symbolic execution */
	/* next call with pending data: the symbol encoder must be reset with the NEW options before it encodes */
	ASSUME(IN.write_pos - IN.read_pos + IN.read_ahead != 0);
	size_t out_pos = 0;
	const lzma_ret r2 = lzma2_encode(&C, &MF, OUT, &out_pos, IN.out_size);
	ASSERT(r2 == LZMA_OK && GE.encodes == 1, "next chunk started");
	ASSERT(GE.resets == 1 && !GE.order_err && GE.r_lc == IN.nlc && GE.r_lp == IN.nlp && GE.r_pb == IN.npb,
			"after an lc/lp/pb change the symbol encoder is reset with the new options before encoding (the decoder resets on new properties)");
	REACH(update_then_chunk);
}
