/* .lzma (LZMA_Alone) decoder (src/liblzma/common/alone_decoder.c): C16, C06, C09, C04. */

/*@obligation
id: C16.alone.header
props: C16 C06 C09 C04 C03
entry: h_alone
unwind: 34
extra_src: liblzma/lzma/lzma_decoder.c
restrict: alone_decode.function_pointer_call.1/stub_code
fn: lzma_alone_decoder_init alone_decode
sentinels: 5
expect: 30
timeout: 900
desc: lzma_alone_decoder_init on a REUSED coder object holding arbitrary leftovers of an earlier file, then the 13 header bytes fed in two pieces at EVERY split point: the options handed to the LZMA decoder are exactly the header's -- lc/lp/pb from byte 0 (accepted iff < 225 and lc+lp <= 4, else FORMAT_ERROR), dictionary size = little-endian bytes 1..4, uncompressed size = little-endian bytes 5..12 with the end marker allowed -- nothing of the previous file leaks in and the result does not depend on the split; picky mode (auto decoder) accepts only dictionary sizes 2^n, 2^n+2^(n-1) or 2^32-1 and sizes that are unknown or < 2^38; the decoder is created only if memusage <= memlimit, else MEMLIMIT_ERROR with the parsed header kept for a retry; afterwards everything is delegated to the nested decoder
assume: lzma_next_filter_init / the nested LZMA decoder are recording stubs; lzma_lzma_decoder_memusage returns an arbitrary estimate
*/

#include "verif.h"
#include "liblzma/common/common.h"

struct in {
	/* leftovers in the reused coder */
	uint32_t old_seq; size_t old_pos; uint64_t old_unc; uint32_t old_dict; uint64_t old_memusage;
	uint8_t picky; uint64_t memlimit, est;
	uint8_t hdr[13]; size_t k;
	uint32_t init_ret, c_ret;
};
static struct in IN VERIF_IN_INIT;

static struct { unsigned inits, codes; lzma_options_lzma o; lzma_vli id; } GA;
static int NESTED;
static lzma_ret stub_code(void *c, const lzma_allocator *a, const uint8_t *restrict in, size_t *restrict ip, size_t is,
		uint8_t *restrict out, size_t *restrict op, size_t os, lzma_action act)
{ (void)c; (void)a; (void)in; (void)ip; (void)is; (void)out; (void)op; (void)os; (void)act; ++GA.codes; return (lzma_ret)IN.c_ret; }
lzma_ret lzma_next_filter_init(lzma_next_coder *next, const lzma_allocator *a, const lzma_filter_info *f)
{
	(void)a; ++GA.inits; GA.o = *(const lzma_options_lzma *)f[0].options; GA.id = f[0].id;
	if (IN.init_ret != LZMA_OK) return (lzma_ret)IN.init_ret;
	next->coder = &NESTED; next->code = &stub_code;
	return LZMA_OK;
}
uint64_t lzma_lzma_decoder_memusage(const void *o) { (void)o; return IN.est; }
void *lzma_alloc(size_t s, const lzma_allocator *a) { (void)s; (void)a; return NULL; }
void lzma_free(void *p, const lzma_allocator *a) { (void)p; (void)a; }
void lzma_next_end(lzma_next_coder *n, const lzma_allocator *a) { (void)a; *n = LZMA_NEXT_CODER_INIT; }
lzma_ret lzma_strm_init(lzma_stream *s) { (void)s; return LZMA_PROG_ERROR; }
void lzma_end(lzma_stream *s) { (void)s; }

#include "liblzma/common/alone_decoder.c"

static lzma_alone_coder C;
static uint8_t OUT[4];

void h_alone(void)
{
	HAVOC(IN, struct in);
	ASSUME(IN.picky <= 1 && IN.k <= 13 && IN.c_ret <= 12 && IN.c_ret != LZMA_BUF_ERROR);
	ASSUME(IN.init_ret == LZMA_OK || IN.init_ret == LZMA_MEM_ERROR || IN.init_ret == LZMA_OPTIONS_ERROR);
	ASSUME(IN.est <= (UINT64_C(1) << 40));
	/* a coder object left over from decoding another file */
	memset(&C, 0, sizeof(C)); memset(&GA, 0, sizeof(GA));
	C.sequence = IN.old_seq; C.pos = IN.old_pos; C.uncompressed_size = IN.old_unc; C.options.dict_size = IN.old_dict; C.memusage = IN.old_memusage;
	C.next = LZMA_NEXT_CODER_INIT;
	lzma_next_coder next = LZMA_NEXT_CODER_INIT;
	next.coder = &C; next.init = (uintptr_t)&lzma_alone_decoder_init; next.code = &alone_decode;
	ASSERT(lzma_alone_decoder_init(&next, NULL, IN.memlimit, IN.picky) == LZMA_OK && next.coder == &C, "re-initialisation reuses the coder object");

	size_t in_pos = 0, out_pos = 0;
	lzma_ret r = alone_decode(&C, NULL, IN.hdr, &in_pos, IN.k, OUT, &out_pos, 4, LZMA_RUN);
	if (r == LZMA_OK && in_pos == IN.k && C.sequence != SEQ_CODE)
		r = alone_decode(&C, NULL, IN.hdr, &in_pos, 13, OUT, &out_pos, 4, LZMA_RUN);

	const uint8_t b0 = IN.hdr[0];
	const bool props_ok = b0 < 225 && (b0 % 9) + ((b0 % 45) / 9) <= 4;
	const uint32_t dict = (uint32_t)IN.hdr[1] | ((uint32_t)IN.hdr[2] << 8) | ((uint32_t)IN.hdr[3] << 16) | ((uint32_t)IN.hdr[4] << 24);
	uint64_t usize = 0; for (int i = 7; i >= 0; --i) usize = (usize << 8) | IN.hdr[5 + i];
	if (!props_ok) { ASSERT(r == LZMA_FORMAT_ERROR && GA.inits == 0, "invalid lc/lp/pb byte: not a .lzma file"); REACH(alone_bad_props); return; }
	if (IN.picky) {
		bool dict_ok = dict == UINT32_MAX;
		for (unsigned n = 0; n < 32; ++n) {
			if (dict == (UINT32_C(1) << n)) dict_ok = true;
			if (n >= 1 && dict == (UINT32_C(1) << n) + (UINT32_C(1) << (n - 1))) dict_ok = true;
		}
		/* dictionary size 0 is not constrained here: the implementation's rounding check lets it through and the LZ decoder raises it to 4 KiB */
		if (dict != 0 && !dict_ok) { ASSERT(r == LZMA_FORMAT_ERROR && GA.inits == 0, "picky: dictionary size must be 2^n or 2^n + 2^(n-1)"); REACH(alone_picky_dict); return; }
		if (usize != UINT64_MAX && usize >= (UINT64_C(1) << 38)) { ASSERT(r == LZMA_FORMAT_ERROR && GA.inits == 0, "picky: known size must be < 256 GiB"); REACH(alone_picky_size); return; }
	}
	const uint64_t want_mem = IN.est + LZMA_MEMUSAGE_BASE;
	const uint64_t limit = IN.memlimit == 0 ? 1 : IN.memlimit;
	ASSERT(C.memusage == want_mem, "memory usage estimate of this file recorded");
	if (want_mem > limit) {
		ASSERT(r == LZMA_MEMLIMIT_ERROR && GA.inits == 0 && C.sequence == SEQ_CODER_INIT && in_pos == 13, "limit checked before anything is allocated; header kept for a retry");
		REACH(alone_memlimit);
		return;
	}
	ASSERT(GA.inits == 1, "LZMA decoder created once the 13 header bytes are complete");
	ASSERT(GA.id == LZMA_FILTER_LZMA1EXT && GA.o.dict_size == dict && GA.o.preset_dict == NULL
			&& GA.o.lc == b0 % 9u && GA.o.lp == (b0 % 45u) / 9u && GA.o.pb == b0 / 45u, "dictionary size and lc/lp/pb exactly as in the header");
	ASSERT(GA.o.ext_flags == LZMA_LZMA1EXT_ALLOW_EOPM && GA.o.ext_size_low == (uint32_t)usize && GA.o.ext_size_high == (uint32_t)(usize >> 32),
			"uncompressed size exactly the 64-bit little-endian header field (nothing left over from an earlier file), end marker allowed");
	if (IN.init_ret != LZMA_OK) { ASSERT(r == (lzma_ret)IN.init_ret, "init error passed on"); return; }
	ASSERT(GA.codes >= 1 && r == (lzma_ret)IN.c_ret && in_pos == 13, "after the header everything is the nested decoder's");
	REACH(alone_delegated);
}
