/* Block encoder (src/liblzma/common/block_encoder.c): C02, C12, C04. */

/*@obligation
id: C02.block.encode
props: C02 C12 C04 C06
entry: h_block_encode
unwind: 70
restrict: block_encode.function_pointer_call.1/stub_code
fn: block_encode block_encoder_update
sentinels: 6
expect: 30
desc: block_encode from ANY counter state with the filter chain as a nondeterministic stub: the compressed/uncompressed counters advance by exactly the bytes produced/consumed and the check is updated over exactly the consumed input; sizes that would exceed the format limits (uncompressed > LZMA_VLI_MAX, compressed > COMPRESSED_SIZE_MAX) are DATA_ERROR; a sync flush or an unfinished chain returns the chain's code unchanged and stays in the Block; when the chain ends (LZMA_FINISH) the counted sizes are written to lzma_block (they become the Index Record), then 0..3 zero Block Padding bytes make the size a multiple of four, then the Check field of lzma_check_size() bytes is emitted position-driven (any output slicing) and copied to raw_check; STREAM_END only after all of that; LZMA_CHECK_NONE has no Check field; filter updates are refused once the data part is over
assume: the filter chain obeys the generic coder contract and, like the real encoders, ends only when LZMA_FINISH has consumed all input (the two upstream assert()s); lzma_check_update/finish are stubs
*/

#include "verif.h"
#include "liblzma/common/common.h"
#include "liblzma/check/check.h"

struct in {
	uint32_t seq; uint64_t comp, unc; size_t pos; uint32_t check;
	size_t in_size, out_size; uint32_t action, c_ret; size_t c_in, c_out;
	uint8_t digest[64];
};
static struct in IN VERIF_IN_INIT;
static struct { unsigned codes, updates, finishes; const uint8_t *upd_buf; size_t upd_size; lzma_action act; } GB;

size_t lzma_bufcpy(const uint8_t *restrict in, size_t *restrict in_pos, size_t in_size,
		uint8_t *restrict out, size_t *restrict out_pos, size_t out_size)
{
	const size_t in_avail = in_size - *in_pos, out_avail = out_size - *out_pos;
	const size_t n = in_avail < out_avail ? in_avail : out_avail;
	for (size_t k = 0; k < n; ++k) out[*out_pos + k] = in[*in_pos + k];
	*in_pos += n; *out_pos += n;
	return n;
}
void lzma_check_init(lzma_check_state *c, lzma_check t) { (void)c; (void)t; }
void lzma_check_update(lzma_check_state *c, lzma_check t, const uint8_t *b, size_t s) { (void)c; (void)t; ++GB.updates; GB.upd_buf = b; GB.upd_size = s; }
void lzma_check_finish(lzma_check_state *c, lzma_check t) { (void)t; ++GB.finishes; memcpy(c->buffer.u8, IN.digest, 64); }
lzma_bool lzma_check_is_supported(lzma_check t) { (void)t; return true; }
uint32_t lzma_check_size(lzma_check type)
{
	static const uint8_t sz[16] = { 0, 4, 4, 4, 8, 8, 8, 16, 16, 16, 32, 32, 32, 64, 64, 64 };
	return (unsigned)type > 15 ? UINT32_MAX : sz[(unsigned)type];
}
lzma_ret lzma_raw_encoder_init(lzma_next_coder *n, const lzma_allocator *a, const lzma_filter *f) { (void)n; (void)a; (void)f; return LZMA_OK; }
lzma_ret lzma_next_filter_update(lzma_next_coder *n, const lzma_allocator *a, const lzma_filter *f) { (void)n; (void)a; (void)f; return LZMA_OK; }
void *lzma_alloc(size_t s, const lzma_allocator *a) { (void)s; (void)a; return NULL; }
void lzma_free(void *p, const lzma_allocator *a) { (void)p; (void)a; }
void lzma_next_end(lzma_next_coder *n, const lzma_allocator *a) { (void)a; *n = LZMA_NEXT_CODER_INIT; }
lzma_ret lzma_strm_init(lzma_stream *s) { (void)s; return LZMA_PROG_ERROR; }
void lzma_end(lzma_stream *s) { (void)s; }
static lzma_ret stub_code(void *c, const lzma_allocator *a, const uint8_t *restrict in, size_t *restrict ip, size_t is,
		uint8_t *restrict out, size_t *restrict op, size_t os, lzma_action act)
{
	(void)c; (void)a; (void)in; (void)out; ++GB.codes; GB.act = act;
	size_t n = IN.c_in; if (n > is - *ip) n = is - *ip;
	size_t m = IN.c_out; if (m > os - *op) m = os - *op;
	/* like the real encoders: the chain ends only when LZMA_FINISH has taken all input */
	if (IN.c_ret == LZMA_STREAM_END && act == LZMA_FINISH) n = is - *ip;
	*ip += n; *op += m;
	return (lzma_ret)IN.c_ret;
}

#include "liblzma/common/block_encoder.c"

static lzma_block_coder C;
static lzma_block B;
static uint8_t INB[8], OUT[8];
static int NESTED;

void h_block_encode(void)
{
	HAVOC(IN, struct in);
	ASSUME(IN.seq <= SEQ_CHECK && IN.check <= 15 && IN.in_size <= 8 && IN.out_size <= 8 && IN.c_ret <= 12 && IN.c_ret != LZMA_BUF_ERROR);
	ASSUME(IN.action == LZMA_RUN || IN.action == LZMA_SYNC_FLUSH || IN.action == LZMA_FINISH); /* supported actions of a Block encoder */
	ASSUME(IN.c_ret != LZMA_STREAM_END || IN.action != LZMA_RUN);
	const uint32_t csz = lzma_check_size((lzma_check)IN.check);
	ASSUME(IN.seq == SEQ_CHECK ? (IN.pos < csz && (IN.comp & 3) == 0 && IN.check != LZMA_CHECK_NONE) : IN.pos == 0);
	ASSUME(IN.comp <= COMPRESSED_SIZE_MAX && IN.unc <= LZMA_VLI_MAX);
	memset(&C, 0, sizeof(C)); memset(&B, 0, sizeof(B)); memset(&GB, 0, sizeof(GB));
	C.sequence = IN.seq; C.block = &B; C.compressed_size = IN.comp; C.uncompressed_size = IN.unc; C.pos = IN.pos;
	C.next.coder = &NESTED; C.next.code = &stub_code;
	B.check = (lzma_check)IN.check; B.compressed_size = 111; B.uncompressed_size = 222;
	memcpy(C.check.buffer.u8, IN.digest, 64);
	memset(OUT, 0xEE, 8);
	size_t in_pos = 0, out_pos = 0;
	const lzma_ret r = block_encode(&C, NULL, INB, &in_pos, IN.in_size, OUT, &out_pos, IN.out_size, (lzma_action)IN.action);
	/* filter update only inside the data part */
	lzma_filter f[1] = { { .id = LZMA_VLI_UNKNOWN, .options = NULL } };
	ASSERT((block_encoder_update(&C, NULL, f, f) == LZMA_OK) == (C.sequence == SEQ_CODE), "filter options can change only while the Block's data is being coded");
	if (LZMA_VLI_MAX - IN.unc < IN.in_size) { ASSERT(r == LZMA_DATA_ERROR && GB.codes == 0, "uncompressed size would exceed LZMA_VLI_MAX"); REACH(be_unc_limit); return; }
	size_t pad_start = 0;
	uint64_t comp = IN.comp;
	if (IN.seq == SEQ_CODE) {
		ASSERT(GB.codes == 1 && GB.act == (lzma_action)IN.action, "chain called once with the caller's action");
		size_t n = IN.c_in; if (n > IN.in_size) n = IN.in_size;
		if (IN.c_ret == LZMA_STREAM_END && IN.action == LZMA_FINISH) n = IN.in_size;
		size_t m = IN.c_out; if (m > IN.out_size) m = IN.out_size;
		if (COMPRESSED_SIZE_MAX - IN.comp < m) { ASSERT(r == LZMA_DATA_ERROR, "compressed size would exceed the Block limit"); REACH(be_comp_limit); return; }
		ASSERT(in_pos == n && C.uncompressed_size == IN.unc + n, "uncompressed counter advances by the input consumed");
		if (n > 0) ASSERT(GB.updates == 1 && GB.upd_buf == INB && GB.upd_size == n, "check updated over exactly the consumed input");
		else ASSERT(GB.updates == 0, "no input, no check update");
		comp = IN.comp + m;
		if (IN.c_ret != LZMA_STREAM_END || IN.action == LZMA_SYNC_FLUSH) {
			ASSERT(r == (lzma_ret)IN.c_ret && C.sequence == SEQ_CODE && C.compressed_size == comp && B.compressed_size == 111, "Block continues; sizes not yet published");
			REACH_IF(IN.action == LZMA_SYNC_FLUSH && IN.c_ret == LZMA_STREAM_END, be_sync_flush);
			return;
		}
		ASSERT(B.compressed_size == comp && B.uncompressed_size == IN.unc + n, "finished data: the counted sizes are published in lzma_block");
		pad_start = m;
		REACH(be_data_end);
	}
	if (IN.seq <= SEQ_PADDING) {
		const unsigned need = (unsigned)((4 - (comp & 3)) & 3);
		const size_t room = IN.out_size - pad_start;
		const size_t np = need < room ? need : room;
		for (size_t k = 0; k < 3; ++k) if (k < np) ASSERT(OUT[pad_start + k] == 0x00, "Block Padding bytes are zero");
		if (np < need) { ASSERT(r == LZMA_OK && out_pos == IN.out_size && C.sequence == SEQ_PADDING, "padding continues in the next call"); REACH(be_pad_wait); return; }
		pad_start += np;
		ASSERT(((comp + np) & 3) == 0, "padded size is a multiple of four");
		if (IN.check == LZMA_CHECK_NONE) { ASSERT(r == LZMA_STREAM_END && out_pos == pad_start, "no Check field for LZMA_CHECK_NONE"); REACH(be_none_end); return; }
		ASSERT(GB.finishes == 1, "check finalised once");
	}
	const size_t have = IN.out_size - pad_start, left = csz - IN.pos, nc = left < have ? left : have;
	ASSERT(out_pos == pad_start + nc, "Check bytes copied as far as the output allows");
	for (size_t k = 0; k < 8; ++k) if (k < nc) ASSERT(OUT[pad_start + k] == IN.digest[IN.pos + k], "Check field bytes in order, resumed at the right position");
	ASSERT((r == LZMA_STREAM_END) == (nc == left), "STREAM_END exactly when the whole Check field is out");
	if (r == LZMA_STREAM_END) { ASSERT(B.raw_check[0] == IN.digest[0] && B.raw_check[csz - 1] == IN.digest[csz - 1], "the check value is also stored in lzma_block.raw_check"); REACH(be_check_end); }
}
