/* Single-threaded .xz Stream encoder (src/liblzma/common/stream_encoder.c): C12, C02, C10, C04. */

/*@obligation
id: C12.stream_encode
props: C12 C02 C04
entry: h_se
unwind: 14
cbmc: --unwindset stream_encode.3:7
restrict: stream_encode.function_pointer_call.1/stub_block_code stream_encode.function_pointer_call.2/stub_index_code
missed_ok: yes
fn: stream_encode block_encoder_init
sentinels: 7
expect: 40
desc: stream_encode from the Block states with every action: the Block encoder gets LZMA_FINISH for LZMA_FULL_FLUSH / LZMA_FULL_BARRIER / LZMA_FINISH and the action itself for RUN / SYNC_FLUSH; when the Block encoder ends a Block (not a sync flush) exactly one Index Record with that Block's Unpadded and Uncompressed sizes is appended and the encoder waits for the next Block; at a Block boundary with no new input a flush action returns STREAM_END WITHOUT starting a Block (no empty Blocks), LZMA_RUN returns OK, LZMA_FINISH starts the Index; a new Block is started only when there is input; a pre-initialised Block encoder (after a filter update) is used once; after the Index the Stream Footer carries lzma_index_size() as Backward Size and the Stream's check type; header/footer bytes are copied out position-driven (any output slicing)
assume: Block encoder, Index encoder, lzma_block_header_size/encode, lzma_index_append/size, lzma_stream_footer_encode are recording stubs with nondeterministic results (their own contracts are separate obligations or listed as not covered)
*/
/*@obligation
id: C10.stream_encoder_update
props: C10 C12 C04
entry: h_se_update
unwind: 8
restrict: stream_encoder_update.function_pointer_call.1/stub_block_update
fn: stream_encoder_update
sentinels: 4
expect: 20
desc: stream_encoder_update (lzma_filters_update on a Stream encoder): the new chain is copied first; between Blocks a new Block encoder is initialised with it, inside a Block only the Block encoder's own update is tried, after the last Block it is a PROG_ERROR; on EVERY failure the encoder's current filter chain is untouched, the temporary copy is freed and no half-initialised Block encoder is marked as ready (the encoder stays usable with the old settings); on success the old chain is freed and replaced by the copy
assume: lzma_filters_copy / lzma_filters_free / block_encoder_init's callees are recording stubs
*/

#include "verif.h"
#include "liblzma/common/common.h"
#include "liblzma/common/index.h"

struct in {
	uint32_t seq, action; uint8_t blk_init; size_t in_size, out_size, buffer_pos, buffer_size;
	uint32_t b_ret, hs_ret, binit_ret, bh_ret, app_ret, iinit_ret, i_ret, ftr_ret; size_t b_in, b_out, i_out;
	uint64_t unpadded, uncompressed, index_size; uint32_t check, header_size;
	uint32_t copy_ret, upd_ret;
};
static struct in IN VERIF_IN_INIT;

static struct { unsigned bcodes, icodes, binits, bhsizes, bhencs, apps, iinits, ftrs, copies, frees, updates; lzma_action b_action; lzma_vli app_u, app_c, ftr_backward; lzma_check ftr_check;
	const lzma_filter *binit_filters; const lzma_filter *freed[2]; } GE;
static int BLK, IDXENC, IDX;

size_t lzma_bufcpy(const uint8_t *restrict in, size_t *restrict in_pos, size_t in_size,
		uint8_t *restrict out, size_t *restrict out_pos, size_t out_size)
{
	const size_t in_avail = in_size - *in_pos, out_avail = out_size - *out_pos;
	const size_t n = in_avail < out_avail ? in_avail : out_avail;
	for (size_t k = 0; k < n; ++k) out[*out_pos + k] = in[*in_pos + k];
	*in_pos += n; *out_pos += n;
	return n;
}
static lzma_ret stub_block_code(void *c, const lzma_allocator *a, const uint8_t *restrict in, size_t *restrict ip, size_t is,
		uint8_t *restrict out, size_t *restrict op, size_t os, lzma_action act)
{ (void)c; (void)a; (void)in; (void)out; ++GE.bcodes; GE.b_action = act; size_t n = IN.b_in; if (n > is - *ip) n = is - *ip; size_t m = IN.b_out; if (m > os - *op) m = os - *op; *ip += n; *op += m; return (lzma_ret)IN.b_ret; }
static lzma_ret stub_index_code(void *c, const lzma_allocator *a, const uint8_t *restrict in, size_t *restrict ip, size_t is,
		uint8_t *restrict out, size_t *restrict op, size_t os, lzma_action act)
{ (void)c; (void)a; (void)in; (void)ip; (void)is; (void)out; (void)act; ++GE.icodes; size_t m = IN.i_out; if (m > os - *op) m = os - *op; *op += m; return (lzma_ret)IN.i_ret; }
static lzma_ret stub_block_update(void *c, const lzma_allocator *a, const lzma_filter *f, const lzma_filter *r) { (void)c; (void)a; (void)f; (void)r; ++GE.updates; return (lzma_ret)IN.upd_ret; }
lzma_ret lzma_block_header_size(lzma_block *b) { ++GE.bhsizes; b->header_size = IN.header_size; return (lzma_ret)IN.hs_ret; }
lzma_ret lzma_block_encoder_init(lzma_next_coder *n, const lzma_allocator *a, lzma_block *b) { (void)a; ++GE.binits; GE.binit_filters = b->filters; if (IN.binit_ret == LZMA_OK) { n->coder = &BLK; n->code = &stub_block_code; n->update = &stub_block_update; } return (lzma_ret)IN.binit_ret; }
lzma_ret lzma_block_header_encode(const lzma_block *b, uint8_t *out) { (void)b; ++GE.bhencs; out[0] = 0x42; return (lzma_ret)IN.bh_ret; }
lzma_vli lzma_block_unpadded_size(const lzma_block *b) { (void)b; return IN.unpadded; }
lzma_ret lzma_index_append(lzma_index *i, const lzma_allocator *a, lzma_vli u, lzma_vli c) { (void)i; (void)a; ++GE.apps; GE.app_u = u; GE.app_c = c; return (lzma_ret)IN.app_ret; }
lzma_ret lzma_index_encoder_init(lzma_next_coder *n, const lzma_allocator *a, const lzma_index *i) { (void)a; (void)i; ++GE.iinits; if (IN.iinit_ret == LZMA_OK) { n->coder = &IDXENC; n->code = &stub_index_code; } return (lzma_ret)IN.iinit_ret; }
lzma_vli lzma_index_size(const lzma_index *i) { (void)i; return IN.index_size; }
lzma_ret lzma_stream_footer_encode(const lzma_stream_flags *o, uint8_t *out) { ++GE.ftrs; GE.ftr_backward = o->backward_size; GE.ftr_check = o->check; out[0] = 0x59; return (lzma_ret)IN.ftr_ret; }
lzma_ret lzma_stream_header_encode(const lzma_stream_flags *o, uint8_t *out) { (void)o; (void)out; return LZMA_OK; }
lzma_ret lzma_filters_copy(const lzma_filter *s, lzma_filter *d, const lzma_allocator *a) { (void)s; (void)a; ++GE.copies; if (IN.copy_ret == LZMA_OK) { d[0].id = 0x77; d[0].options = NULL; d[1].id = LZMA_VLI_UNKNOWN; d[1].options = NULL; } return (lzma_ret)IN.copy_ret; }
void lzma_filters_free(lzma_filter *f, const lzma_allocator *a) { (void)a; if (GE.frees < 2) GE.freed[GE.frees] = f; ++GE.frees; }
lzma_index *lzma_index_init(const lzma_allocator *a) { (void)a; return (lzma_index *)&IDX; }
void lzma_index_end(lzma_index *i, const lzma_allocator *a) { (void)i; (void)a; }
void *lzma_alloc(size_t s, const lzma_allocator *a) { (void)s; (void)a; return NULL; }
void lzma_free(void *p, const lzma_allocator *a) { (void)p; (void)a; }
void lzma_next_end(lzma_next_coder *n, const lzma_allocator *a) { (void)a; *n = LZMA_NEXT_CODER_INIT; }
lzma_ret lzma_strm_init(lzma_stream *s) { (void)s; return LZMA_PROG_ERROR; }
void lzma_end(lzma_stream *s) { (void)s; }
lzma_bool lzma_check_is_supported(lzma_check c) { (void)c; return true; }
lzma_ret lzma_easy_preset_dummy(void);

#include "liblzma/common/stream_encoder.c"

static lzma_stream_coder C;
static uint8_t INB[4], OUT[8];
lzma_code_function verif_keep_se1 = &stub_block_code, verif_keep_se2 = &stub_index_code;

static bool ok_ret(uint32_t r) { return r <= 12 && r != LZMA_BUF_ERROR; }

static void setup(void)
{
	memset(&C, 0, sizeof(C)); memset(&GE, 0, sizeof(GE));
	C.sequence = IN.seq; C.block_encoder_is_initialized = IN.blk_init; C.index = (lzma_index *)&IDX;
	C.block_encoder.coder = &BLK; C.block_encoder.code = &stub_block_code; C.block_encoder.update = &stub_block_update;
	C.index_encoder.coder = &IDXENC; C.index_encoder.code = &stub_index_code;
	C.block_options.check = (lzma_check)IN.check; C.block_options.uncompressed_size = IN.uncompressed; C.block_options.filters = C.filters;
	C.filters[0].id = 0x21; C.filters[1].id = LZMA_VLI_UNKNOWN;
	C.buffer_pos = IN.buffer_pos; C.buffer_size = IN.buffer_size;
	if (IN.blk_init) C.block_options.header_size = IN.header_size; /* computed when the encoder was pre-initialised */
}

void h_se(void)
{
	HAVOC(IN, struct in);
	ASSUME(IN.action <= 4 && IN.blk_init <= 1 && IN.in_size <= 4 && IN.out_size >= 1 && IN.out_size <= 8 && IN.check <= 15);
	ASSUME(ok_ret(IN.b_ret) && ok_ret(IN.i_ret) && (IN.hs_ret == LZMA_OK || IN.hs_ret == LZMA_PROG_ERROR) && (IN.binit_ret == LZMA_OK || IN.binit_ret == LZMA_MEM_ERROR || IN.binit_ret == LZMA_OPTIONS_ERROR)
			&& (IN.bh_ret == LZMA_OK || IN.bh_ret == LZMA_PROG_ERROR) && (IN.app_ret == LZMA_OK || IN.app_ret == LZMA_MEM_ERROR || IN.app_ret == LZMA_DATA_ERROR)
			&& (IN.iinit_ret == LZMA_OK || IN.iinit_ret == LZMA_MEM_ERROR) && (IN.ftr_ret == LZMA_OK || IN.ftr_ret == LZMA_PROG_ERROR));
	ASSUME(IN.header_size >= 8 && IN.header_size <= 1024 && (IN.header_size & 3) == 0);
	ASSUME(IN.seq == SEQ_BLOCK_INIT || IN.seq == SEQ_BLOCK_ENCODE || IN.seq == SEQ_INDEX_ENCODE);
	ASSUME(IN.buffer_pos == 0);
	ASSUME(IN.seq != SEQ_BLOCK_INIT || IN.b_ret != LZMA_STREAM_END); /* one Block start per call in the BLOCK_INIT variant */
	ASSUME(IN.unpadded >= 5 && IN.unpadded <= UNPADDED_SIZE_MAX && IN.uncompressed <= LZMA_VLI_MAX); /* contract of the Block encoder: it leaves valid sizes in lzma_block */
	setup();
	size_t in_pos = 0, out_pos = 0;
	const lzma_ret r = stream_encode(&C, NULL, INB, &in_pos, IN.in_size, OUT, &out_pos, IN.out_size, (lzma_action)IN.action);
	if (IN.seq == SEQ_BLOCK_INIT) {
		if (IN.in_size == 0) {
			ASSERT(GE.binits == 0 && GE.bhencs == 0 && GE.bcodes == 0, "no input at a Block boundary: no (empty) Block is started");
			if (IN.action == LZMA_RUN) { ASSERT(r == LZMA_OK && out_pos == 0, "RUN: wait for input"); REACH(se_idle); }
			else if (IN.action != LZMA_FINISH) { ASSERT(r == LZMA_STREAM_END && out_pos == 0, "flush with nothing pending completes at once, without output"); REACH(se_flush_noop); }
			else { ASSERT(GE.iinits == 1, "FINISH: the Index follows"); REACH(se_finish_index); }
		} else {
			if (!IN.blk_init && IN.hs_ret != LZMA_OK) { ASSERT(r == (lzma_ret)IN.hs_ret && GE.binits == 0 && GE.bhencs == 0, "Block Header size error passed on"); return; }
			ASSERT(GE.binits == (IN.blk_init ? 0u : 1u), "a Block encoder pre-initialised by a filter update is used as it is, otherwise one is created");
			if (!IN.blk_init && (IN.hs_ret != LZMA_OK || IN.binit_ret != LZMA_OK)) { ASSERT(r != LZMA_OK && r != LZMA_STREAM_END && GE.bhencs == 0, "Block init error passed on"); return; }
			ASSERT(GE.bhencs >= 1 && !C.block_encoder_is_initialized, "Block Header encoded; the pre-initialised flag is used up");
			if (IN.bh_ret != LZMA_OK) { ASSERT(r == LZMA_PROG_ERROR, "header encode failure is a programming error"); return; }
			ASSERT(OUT[0] == 0x42 && out_pos >= 1, "Block Header bytes are delivered first");
			REACH(se_block_started);
		}
		return;
	}
	if (IN.seq == SEQ_BLOCK_ENCODE) {
		ASSERT(GE.bcodes >= 1, "Block encoder runs");
		if (GE.bcodes == 1) ASSERT(GE.b_action == (IN.action == LZMA_RUN ? LZMA_RUN : (IN.action == LZMA_SYNC_FLUSH ? LZMA_SYNC_FLUSH : LZMA_FINISH)), "FULL_FLUSH / FULL_BARRIER / FINISH end the Block; RUN and SYNC_FLUSH are passed through");
		if (IN.b_ret != LZMA_STREAM_END || IN.action == LZMA_SYNC_FLUSH) { ASSERT(r == (lzma_ret)IN.b_ret && GE.apps == 0 && C.sequence == SEQ_BLOCK_ENCODE, "Block continues (sync flush stays inside the Block)"); REACH(se_block_continues); return; }
		ASSERT(GE.apps == 1 && GE.app_u == IN.unpadded && GE.app_c == IN.uncompressed, "finished Block: exactly one Index Record with its Unpadded and Uncompressed sizes");
		if (IN.app_ret != LZMA_OK) { ASSERT(r == (lzma_ret)IN.app_ret, "Index append error passed on"); return; }
		REACH(se_block_done);
		return;
	}
	/* SEQ_INDEX_ENCODE */
	ASSERT(GE.icodes >= 1, "Index encoder runs");
	if (IN.i_ret != LZMA_STREAM_END) { ASSERT(r == (lzma_ret)IN.i_ret && GE.ftrs == 0, "Index not finished yet"); return; }
	ASSERT(GE.ftrs == 1 && GE.ftr_backward == IN.index_size && GE.ftr_check == (lzma_check)IN.check, "Stream Footer: Backward Size = size of the Index just written, same check type as the header");
	if (IN.ftr_ret != LZMA_OK) { ASSERT(r == LZMA_PROG_ERROR, "footer encode failure"); return; }
	size_t m = IN.i_out; if (m > IN.out_size) m = IN.out_size;
	if (out_pos > m) ASSERT(OUT[m] == 0x59, "footer bytes follow the Index");
	ASSERT((r == LZMA_STREAM_END) == (out_pos - m == 12), "STREAM_END exactly when the 12 footer bytes are out");
	REACH(se_footer);
}

void h_se_update(void)
{
	HAVOC(IN, struct in);
	ASSUME(IN.seq <= SEQ_STREAM_FOOTER && IN.blk_init <= 1 && IN.check <= 15);
	ASSUME((IN.copy_ret == LZMA_OK || IN.copy_ret == LZMA_MEM_ERROR || IN.copy_ret == LZMA_OPTIONS_ERROR) && (IN.hs_ret == LZMA_OK || IN.hs_ret == LZMA_OPTIONS_ERROR)
			&& (IN.binit_ret == LZMA_OK || IN.binit_ret == LZMA_MEM_ERROR || IN.binit_ret == LZMA_OPTIONS_ERROR) && (IN.upd_ret == LZMA_OK || IN.upd_ret == LZMA_OPTIONS_ERROR || IN.upd_ret == LZMA_PROG_ERROR));
	ASSUME(IN.header_size >= 8 && IN.header_size <= 1024);
	setup();
	lzma_filter nf[2] = { { .id = 0x55, .options = NULL }, { .id = LZMA_VLI_UNKNOWN, .options = NULL } };
	const lzma_ret r = stream_encoder_update(&C, NULL, nf, nf);
	ASSERT(GE.copies == 1, "new chain copied first");
	if (IN.copy_ret != LZMA_OK) { ASSERT(r == (lzma_ret)IN.copy_ret && C.filters[0].id == 0x21 && GE.frees == 0 && GE.binits == 0, "copy failed: nothing else happened"); REACH(upd_copy_failed); return; }
	if (r != LZMA_OK) {
		ASSERT(C.filters[0].id == 0x21 && C.block_options.filters == C.filters, "failed update: the encoder keeps its current chain");
		ASSERT(GE.frees == 1 && GE.freed[0] != C.filters, "failed update: only the temporary copy is freed");
		if (IN.seq > SEQ_BLOCK_ENCODE) ASSERT(r == LZMA_PROG_ERROR, "no update after the last Block");
		if (IN.seq <= SEQ_BLOCK_INIT) ASSERT(!C.block_encoder_is_initialized, "a failed re-initialisation between Blocks leaves NO pre-initialised Block encoder behind (it may be torn down): the next Block initialises a fresh one with the old chain");
		REACH(upd_failed);
		return;
	}
	ASSERT(C.filters[0].id == 0x77 && GE.frees == 1 && GE.freed[0] == C.filters, "success: old chain freed, copy installed");
	if (IN.seq <= SEQ_BLOCK_INIT) { ASSERT(GE.binits == 1 && GE.binit_filters != C.filters && C.block_encoder_is_initialized && C.block_options.filters == C.filters, "between Blocks: new Block encoder initialised from the copy and marked ready"); REACH(upd_between_blocks); }
	else { ASSERT(GE.updates == 1 && GE.binits == 0, "inside a Block: only the Block encoder's own update"); REACH(upd_in_block); }
}
