/* BCJ filter driver (src/liblzma/simple/simple_coder.c): buffering around the per-architecture filter functions: C15, C12, C04, C06. */

/*@obligation
id: C15.simple.code
defs: -DSC_IN=3 -DSC_OUT=4
props: C15 C12 C04 C06
entry: h_simple
unwind: 18
restrict: call_filter.function_pointer_call.1/stub_filter
fn: simple_code copy_or_code call_filter
sentinels: 5
expect: 40
timeout: 900
desc: simple_code (last filter in the chain) from ANY consistent buffer state with 0..3 input bytes and 0..4 bytes of output room, filter function as a stub that converts nothing but reports any legal 'filtered' count: LZMA_SYNC_FLUSH is refused with OPTIONS_ERROR before anything is touched; bytes are conserved and stay in order -- the output produced so far followed by the bytes still held back is exactly the previously held bytes followed by the consumed input (no byte lost, duplicated or reordered, so the length never changes); pos <= filtered <= size <= allocated is preserved and every copy stays inside the buffers; now_pos advances by exactly the bytes the filter reported as filtered; STREAM_END only after LZMA_FINISH consumed all input AND everything held back has been delivered
assume: the architecture filter obeys its contract: returns r <= size with size - r <= unfiltered_max (enforced for every real filter by the C15.unit/multi obligations); next coder absent (BCJ as last filter; with a next coder the data path is copy_or_code's call-through)
*/
/*@obligation
id: C15.simple.code.wide
tier: thorough
defs: -DSC_IN=5 -DSC_OUT=6
props: C15 C12 C04 C06
entry: h_simple
unwind: 18
restrict: call_filter.function_pointer_call.1/stub_filter
fn: simple_code copy_or_code call_filter
sentinels: 5
expect: 40
timeout: 1800
desc: simple_code (last filter in the chain) from ANY consistent buffer state with 0..5 input bytes and 0..6 bytes of output room, filter function as a stub that converts nothing but reports any legal 'filtered' count: LZMA_SYNC_FLUSH is refused with OPTIONS_ERROR before anything is touched; bytes are conserved and stay in order -- the output produced so far followed by the bytes still held back is exactly the previously held bytes followed by the consumed input (no byte lost, duplicated or reordered, so the length never changes); pos <= filtered <= size <= allocated is preserved and every copy stays inside the buffers; now_pos advances by exactly the bytes the filter reported as filtered; STREAM_END only after LZMA_FINISH consumed all input AND everything held back has been delivered
assume: the architecture filter obeys its contract: returns r <= size with size - r <= unfiltered_max (enforced for every real filter by the C15.unit/multi obligations); next coder absent (BCJ as last filter; with a next coder the data path is copy_or_code's call-through)
*/
/*@obligation
id: C15.simple.init
props: C15 C10 C04
entry: h_simple_init
unwind: 4
fn: lzma_simple_coder_init
sentinels: 4
expect: 10
replay: none
desc: lzma_simple_coder_init: a start_offset that is not a multiple of the filter's alignment is OPTIONS_ERROR; otherwise now_pos = start_offset (0 without options), buffer state cleared, 2*unfiltered_max bytes of buffer; when the second allocation (filter state) fails the coder object stays owned by next->coder so that lzma_next_end releases it; initialising the SAME coder object again after it has been used (any leftover now_pos / buffer state) gives exactly the fresh state again: now_pos = the new start_offset, 0 without options
assume: lzma_alloc is malloc with nondeterministic failure; lzma_next_filter_init is a stub
*/

#include "verif.h"
#include "liblzma/common/common.h"
#include <stdlib.h>

size_t lzma_bufcpy(const uint8_t *restrict in, size_t *restrict in_pos, size_t in_size,
		uint8_t *restrict out, size_t *restrict out_pos, size_t out_size)
{
	const size_t in_avail = in_size - *in_pos, out_avail = out_size - *out_pos;
	const size_t n = in_avail < out_avail ? in_avail : out_avail;
	for (size_t k = 0; k < n; ++k) out[*out_pos + k] = in[*in_pos + k];
	*in_pos += n; *out_pos += n;
	return n;
}
static unsigned g_allocs; static uint8_t g_fail_mask;
void *lzma_alloc(size_t s, const lzma_allocator *a) { (void)a; const unsigned k = g_allocs++; if ((g_fail_mask >> (k & 7)) & 1) return NULL; return malloc(s); }
void lzma_free(void *p, const lzma_allocator *a) { (void)a; free(p); }
void lzma_next_end(lzma_next_coder *n, const lzma_allocator *a) { (void)a; *n = LZMA_NEXT_CODER_INIT; }
lzma_ret lzma_next_filter_init(lzma_next_coder *n, const lzma_allocator *a, const lzma_filter_info *f) { (void)n; (void)a; (void)f; return LZMA_OK; }
lzma_ret lzma_next_filter_update(lzma_next_coder *n, const lzma_allocator *a, const lzma_filter *f) { (void)n; (void)a; (void)f; return LZMA_OK; }

#include "liblzma/simple/simple_coder.c"

#define UMAX 4
#ifndef SC_IN
#	define SC_IN 3
#	define SC_OUT 4
#endif
struct in {
	size_t pos, filtered, size; uint8_t end_reached, is_encoder; uint32_t now_pos;
	uint8_t held[2 * UMAX], inb[8]; size_t in_size, out_size; uint32_t action;
	uint8_t rem[3];
	uint32_t start_offset, alignment; uint8_t has_opts, fail_mask; size_t simple_size;
	uint32_t start_offset2; uint8_t has_opts2;
};
static struct in IN VERIF_IN_INIT;

static struct { unsigned calls; size_t total; } GS;
static size_t stub_filter(void *simple, uint32_t now_pos, bool is_encoder, uint8_t *buffer, size_t size)
{
	(void)simple; (void)now_pos; (void)is_encoder; (void)buffer;
	size_t rem = IN.rem[GS.calls < 3 ? GS.calls : 2];
	if (rem > UMAX) rem = UMAX;
	if (rem > size) rem = size;
	++GS.calls; GS.total += size - rem;
	return size - rem;
}

void h_simple(void)
{
	HAVOC(IN, struct in);
	ASSUME(IN.end_reached <= 1 && IN.is_encoder <= 1 && IN.in_size <= SC_IN && IN.out_size <= SC_OUT && IN.action <= 4);
	/* representation invariant */
	ASSUME(IN.pos <= IN.filtered && IN.filtered <= IN.size && IN.size <= 2 * UMAX);
	ASSUME(!IN.end_reached || (IN.filtered == IN.size && IN.pos < IN.filtered)); /* after the final STREAM_END the coder is not called again (lzma_code: ISEQ_END) */
	ASSUME(IN.filtered == IN.pos ? IN.size - IN.pos <= UMAX : true); /* at most unfiltered_max unfiltered bytes are ever held once the filtered part is drained */
	lzma_simple_coder *c = malloc(sizeof(lzma_simple_coder) + 2 * UMAX);
	ASSUME(c != NULL);
	memset(c, 0, sizeof(*c));
	c->next = LZMA_NEXT_CODER_INIT; c->filter = &stub_filter; c->allocated = 2 * UMAX; c->is_encoder = IN.is_encoder;
	c->end_was_reached = IN.end_reached; c->pos = IN.pos; c->filtered = IN.filtered; c->size = IN.size; c->now_pos = IN.now_pos;
	memcpy(c->buffer, IN.held, 2 * UMAX);
	memset(&GS, 0, sizeof(GS));
	uint8_t out[8]; memset(out, 0xEE, 8);
	size_t in_pos = 0, out_pos = 0;
	/* end_was_reached with data still to deliver only happens after FINISH consumed everything */
	ASSUME(!IN.end_reached || (IN.in_size == 0));
	const lzma_ret r = simple_code(c, NULL, IN.inb, &in_pos, IN.in_size, out, &out_pos, IN.out_size, (lzma_action)IN.action);
	if (IN.action == LZMA_SYNC_FLUSH) {
		ASSERT(r == LZMA_OPTIONS_ERROR && in_pos == 0 && out_pos == 0 && c->pos == IN.pos && c->size == IN.size && GS.calls == 0, "BCJ filters cannot sync-flush: refused, nothing touched");
		REACH(simple_sync_flush);
		return;
	}
	ASSERT(r == LZMA_OK || r == LZMA_STREAM_END, "OK / STREAM_END");
	ASSERT(in_pos <= IN.in_size && out_pos <= IN.out_size, "positions inside the buffers");
	ASSERT(c->pos <= c->filtered && c->filtered <= c->size && c->size <= c->allocated, "pos <= filtered <= size <= allocated");
	/* conservation and order: (old held bytes) ++ (consumed input) == (output) ++ (new held bytes) */
	const size_t old_held = IN.size - IN.pos, new_held = c->size - c->pos;
	ASSERT(old_held + in_pos == out_pos + new_held, "no byte lost or duplicated: held + consumed == delivered + still held");
	for (size_t k = 0; k < 16; ++k) {
		if (k >= old_held + in_pos) break;
		const uint8_t src = k < old_held ? IN.held[IN.pos + k] : IN.inb[k - old_held];
		const uint8_t dst = k < out_pos ? out[k] : c->buffer[c->pos + (k - out_pos)];
		ASSERT(src == dst, "bytes stay in order");
	}
	ASSERT(c->now_pos == IN.now_pos + (uint32_t)GS.total, "now_pos advances by the bytes the filter reported as filtered");
	if (r == LZMA_STREAM_END) {
		ASSERT(c->end_was_reached && c->pos == c->size, "STREAM_END only when everything held back has been delivered");
		ASSERT(IN.end_reached || (IN.is_encoder && IN.action == LZMA_FINISH && in_pos == IN.in_size), "and only after LZMA_FINISH consumed all input");
		REACH(simple_end);
	}
	REACH_IF(GS.calls >= 1 && new_held > 0, simple_holds_back);
	REACH_IF(out_pos == SC_OUT, simple_full_output);
	REACH_IF(IN.pos < IN.filtered && out_pos > 0, simple_drains_old);
}

void h_simple_init(void)
{
	HAVOC(IN, struct in);
	ASSUME(IN.has_opts <= 1 && (IN.alignment == 1 || IN.alignment == 2 || IN.alignment == 4 || IN.alignment == 16) && IN.simple_size <= 16);
	lzma_next_coder next = LZMA_NEXT_CODER_INIT;
	lzma_options_bcj o = { .start_offset = IN.start_offset };
	const lzma_filter_info f[2] = { { .id = LZMA_FILTER_X86, .init = NULL, .options = IN.has_opts ? &o : NULL }, { .id = LZMA_VLI_UNKNOWN, .init = NULL, .options = NULL } };
	g_allocs = 0; g_fail_mask = IN.fail_mask;
	const lzma_ret r = lzma_simple_coder_init(&next, NULL, f, &stub_filter, IN.simple_size, UMAX, IN.alignment, IN.is_encoder != 0);
	if (next.coder == NULL) { ASSERT(r == LZMA_MEM_ERROR, "coder allocation failed"); REACH(sinit_nomem); return; }
	lzma_simple_coder *c = next.coder;
	ASSERT(next.code == &simple_code && next.end == &simple_coder_end, "coder owned by next (lzma_next_end can release it) even if init fails later");
	if (r == LZMA_MEM_ERROR) return;
	if (IN.has_opts && (IN.start_offset & (IN.alignment - 1))) { ASSERT(r == LZMA_OPTIONS_ERROR, "start_offset must be a multiple of the filter's alignment"); REACH(sinit_misaligned); return; }
	ASSERT(r == LZMA_OK && c->now_pos == (IN.has_opts ? IN.start_offset : 0) && c->allocated == 2 * UMAX && c->pos == 0 && c->filtered == 0 && c->size == 0 && !c->end_was_reached, "fresh filter state at the requested start offset");
	REACH(sinit_ok);
	/* the same coder object is initialised AGAIN (next Block of a Stream, a reused lzma_stream) after it has been used:
	 * whatever the previous use left behind must be forgotten */
	ASSUME(IN.has_opts2 <= 1 && IN.pos <= IN.filtered && IN.filtered <= IN.size && IN.size <= 2 * UMAX && IN.end_reached <= 1);
	c->now_pos = IN.now_pos; c->pos = IN.pos; c->filtered = IN.filtered; c->size = IN.size; c->end_was_reached = IN.end_reached;
	lzma_options_bcj o2 = { .start_offset = IN.start_offset2 };
	const lzma_filter_info f2[2] = { { .id = LZMA_FILTER_X86, .init = NULL, .options = IN.has_opts2 ? &o2 : NULL }, { .id = LZMA_VLI_UNKNOWN, .init = NULL, .options = NULL } };
	const unsigned allocs_before = g_allocs;
	const lzma_ret r2 = lzma_simple_coder_init(&next, NULL, f2, &stub_filter, IN.simple_size, UMAX, IN.alignment, IN.is_encoder != 0);
	ASSERT(next.coder == c && g_allocs == allocs_before, "re-initialisation reuses the coder object");
	if (IN.has_opts2 && (IN.start_offset2 & (IN.alignment - 1))) { ASSERT(r2 == LZMA_OPTIONS_ERROR, "start_offset must be a multiple of the filter's alignment (re-init)"); return; }
	ASSERT(r2 == LZMA_OK && c->now_pos == (IN.has_opts2 ? IN.start_offset2 : 0) && c->pos == 0 && c->filtered == 0 && c->size == 0 && !c->end_was_reached, "a re-initialised coder starts at the requested start offset (0 without options) with an empty buffer, whatever its previous use left behind");
	REACH(sinit_reinit_ok);
}
