/* .lz (lzip) decoder state machine (src/liblzma/common/lzip_decoder.c): C16, C05, C06, C09, C04. */

/*@obligation
id: C16.lzip.id_string
defs: -DLZIP_SEQ=0
props: C16 C05 C06 C04 C09
entry: h_lzip
unwind: 22
cbmc: --unwindset lzip_decode.0:6,lzip_decode.2:2
missed_ok: yes
restrict: lzip_decode.function_pointer_call.1/stub_code
fn: lzip_decode
sentinels: 2
expect: 50
timeout: 200
desc: (entry state SEQ_ID_STRING) one lzip_decode call from ANY coder state with up to 8 input bytes, every flag combination (TELL_ANY_CHECK, IGNORE_CHECK, CONCATENATED), nested LZMA decoder as a nondeterministic stub: (1) the member-size counter always equals the bytes of the current member consumed so far (ghost count) whatever return path is taken; (2) magic 'LZIP' compared byte-serially, mismatch = FORMAT_ERROR on the first member, STREAM_END without consuming the byte on later members, end of input = STREAM_END only between members with LZMA_FINISH; (3) version > 1 = OPTIONS_ERROR; (4) dictionary byte valid iff 12 <= b2log <= 29 and not (b2log = 12 with fraction), size = 2^b2log - frac*2^(b2log-4), lc/lp/pb = 3/0/2; (5) nested decoder initialised only if memusage <= memlimit, else MEMLIMIT_ERROR with the state kept for a retry; (6) footer of 12 (v0) / 20 (v1) bytes: CRC32 (unless IGNORE_CHECK), data size and (v1) member size each compared with the counted values, any mismatch DATA_ERROR; STREAM_END after a member only when not concatenated; (7) truncation is never reported as success
assume: the nested LZMA1 decoder (lzma_lzma_decoder_init / its code function) is a stub that consumes/produces any amounts within its buffers and returns any code; lzma_crc32 is replaced by a ghost fold function (order- and range-sensitive); the real CRC32 is C14
*/
/*@obligation
id: C16.lzip.version
defs: -DLZIP_SEQ=1
props: C16 C05 C06 C04 C09
entry: h_lzip
unwind: 22
cbmc: --unwindset lzip_decode.0:6,lzip_decode.2:2
missed_ok: yes
restrict: lzip_decode.function_pointer_call.1/stub_code
fn: lzip_decode
sentinels: 2
expect: 50
timeout: 200
desc: (entry state SEQ_VERSION) one lzip_decode call from ANY coder state with up to 8 input bytes, every flag combination (TELL_ANY_CHECK, IGNORE_CHECK, CONCATENATED), nested LZMA decoder as a nondeterministic stub: (1) the member-size counter always equals the bytes of the current member consumed so far (ghost count) whatever return path is taken; (2) magic 'LZIP' compared byte-serially, mismatch = FORMAT_ERROR on the first member, STREAM_END without consuming the byte on later members, end of input = STREAM_END only between members with LZMA_FINISH; (3) version > 1 = OPTIONS_ERROR; (4) dictionary byte valid iff 12 <= b2log <= 29 and not (b2log = 12 with fraction), size = 2^b2log - frac*2^(b2log-4), lc/lp/pb = 3/0/2; (5) nested decoder initialised only if memusage <= memlimit, else MEMLIMIT_ERROR with the state kept for a retry; (6) footer of 12 (v0) / 20 (v1) bytes: CRC32 (unless IGNORE_CHECK), data size and (v1) member size each compared with the counted values, any mismatch DATA_ERROR; STREAM_END after a member only when not concatenated; (7) truncation is never reported as success
assume: the nested LZMA1 decoder (lzma_lzma_decoder_init / its code function) is a stub that consumes/produces any amounts within its buffers and returns any code; lzma_crc32 is replaced by a ghost fold function (order- and range-sensitive); the real CRC32 is C14
*/
/*@obligation
id: C16.lzip.dict_size
defs: -DLZIP_SEQ=2
props: C16 C05 C06 C04 C09
entry: h_lzip
unwind: 22
cbmc: --unwindset lzip_decode.0:6,lzip_decode.2:2
missed_ok: yes
restrict: lzip_decode.function_pointer_call.1/stub_code
fn: lzip_decode
sentinels: 2
expect: 50
timeout: 200
desc: (entry state SEQ_DICT_SIZE) one lzip_decode call from ANY coder state with up to 8 input bytes, every flag combination (TELL_ANY_CHECK, IGNORE_CHECK, CONCATENATED), nested LZMA decoder as a nondeterministic stub: (1) the member-size counter always equals the bytes of the current member consumed so far (ghost count) whatever return path is taken; (2) magic 'LZIP' compared byte-serially, mismatch = FORMAT_ERROR on the first member, STREAM_END without consuming the byte on later members, end of input = STREAM_END only between members with LZMA_FINISH; (3) version > 1 = OPTIONS_ERROR; (4) dictionary byte valid iff 12 <= b2log <= 29 and not (b2log = 12 with fraction), size = 2^b2log - frac*2^(b2log-4), lc/lp/pb = 3/0/2; (5) nested decoder initialised only if memusage <= memlimit, else MEMLIMIT_ERROR with the state kept for a retry; (6) footer of 12 (v0) / 20 (v1) bytes: CRC32 (unless IGNORE_CHECK), data size and (v1) member size each compared with the counted values, any mismatch DATA_ERROR; STREAM_END after a member only when not concatenated; (7) truncation is never reported as success
assume: the nested LZMA1 decoder (lzma_lzma_decoder_init / its code function) is a stub that consumes/produces any amounts within its buffers and returns any code; lzma_crc32 is replaced by a ghost fold function (order- and range-sensitive); the real CRC32 is C14
*/
/*@obligation
id: C16.lzip.coder_init
defs: -DLZIP_SEQ=3
props: C16 C05 C06 C04 C09
entry: h_lzip
unwind: 22
cbmc: --unwindset lzip_decode.0:6,lzip_decode.2:2
missed_ok: yes
restrict: lzip_decode.function_pointer_call.1/stub_code
fn: lzip_decode
sentinels: 0
expect: 50
timeout: 200
desc: (entry state SEQ_CODER_INIT) one lzip_decode call from ANY coder state with up to 8 input bytes, every flag combination (TELL_ANY_CHECK, IGNORE_CHECK, CONCATENATED), nested LZMA decoder as a nondeterministic stub: (1) the member-size counter always equals the bytes of the current member consumed so far (ghost count) whatever return path is taken; (2) magic 'LZIP' compared byte-serially, mismatch = FORMAT_ERROR on the first member, STREAM_END without consuming the byte on later members, end of input = STREAM_END only between members with LZMA_FINISH; (3) version > 1 = OPTIONS_ERROR; (4) dictionary byte valid iff 12 <= b2log <= 29 and not (b2log = 12 with fraction), size = 2^b2log - frac*2^(b2log-4), lc/lp/pb = 3/0/2; (5) nested decoder initialised only if memusage <= memlimit, else MEMLIMIT_ERROR with the state kept for a retry; (6) footer of 12 (v0) / 20 (v1) bytes: CRC32 (unless IGNORE_CHECK), data size and (v1) member size each compared with the counted values, any mismatch DATA_ERROR; STREAM_END after a member only when not concatenated; (7) truncation is never reported as success
assume: the nested LZMA1 decoder (lzma_lzma_decoder_init / its code function) is a stub that consumes/produces any amounts within its buffers and returns any code; lzma_crc32 is replaced by a ghost fold function (order- and range-sensitive); the real CRC32 is C14
*/
/*@obligation
id: C16.lzip.lzma_stream
defs: -DLZIP_SEQ=4
props: C16 C05 C06 C04 C09
entry: h_lzip
unwind: 22
cbmc: --unwindset lzip_decode.0:6,lzip_decode.2:2
missed_ok: yes
restrict: lzip_decode.function_pointer_call.1/stub_code
fn: lzip_decode
sentinels: 1
expect: 50
timeout: 200
desc: (entry state SEQ_LZMA_STREAM) one lzip_decode call from ANY coder state with up to 8 input bytes, every flag combination (TELL_ANY_CHECK, IGNORE_CHECK, CONCATENATED), nested LZMA decoder as a nondeterministic stub: (1) the member-size counter always equals the bytes of the current member consumed so far (ghost count) whatever return path is taken; (2) magic 'LZIP' compared byte-serially, mismatch = FORMAT_ERROR on the first member, STREAM_END without consuming the byte on later members, end of input = STREAM_END only between members with LZMA_FINISH; (3) version > 1 = OPTIONS_ERROR; (4) dictionary byte valid iff 12 <= b2log <= 29 and not (b2log = 12 with fraction), size = 2^b2log - frac*2^(b2log-4), lc/lp/pb = 3/0/2; (5) nested decoder initialised only if memusage <= memlimit, else MEMLIMIT_ERROR with the state kept for a retry; (6) footer of 12 (v0) / 20 (v1) bytes: CRC32 (unless IGNORE_CHECK), data size and (v1) member size each compared with the counted values, any mismatch DATA_ERROR; STREAM_END after a member only when not concatenated; (7) truncation is never reported as success
assume: the nested LZMA1 decoder (lzma_lzma_decoder_init / its code function) is a stub that consumes/produces any amounts within its buffers and returns any code; lzma_crc32 is replaced by a ghost fold function (order- and range-sensitive); the real CRC32 is C14
*/
/*@obligation
id: C16.lzip.member_footer
defs: -DLZIP_SEQ=5
props: C16 C05 C06 C04 C09
entry: h_lzip
unwind: 22
cbmc: --unwindset lzip_decode.0:6,lzip_decode.2:3
missed_ok: yes
restrict: lzip_decode.function_pointer_call.1/stub_code
fn: lzip_decode
sentinels: 3
expect: 50
timeout: 200
desc: (entry state SEQ_MEMBER_FOOTER) one lzip_decode call from ANY coder state with up to 8 input bytes, every flag combination (TELL_ANY_CHECK, IGNORE_CHECK, CONCATENATED), nested LZMA decoder as a nondeterministic stub: (1) the member-size counter always equals the bytes of the current member consumed so far (ghost count) whatever return path is taken; (2) magic 'LZIP' compared byte-serially, mismatch = FORMAT_ERROR on the first member, STREAM_END without consuming the byte on later members, end of input = STREAM_END only between members with LZMA_FINISH; (3) version > 1 = OPTIONS_ERROR; (4) dictionary byte valid iff 12 <= b2log <= 29 and not (b2log = 12 with fraction), size = 2^b2log - frac*2^(b2log-4), lc/lp/pb = 3/0/2; (5) nested decoder initialised only if memusage <= memlimit, else MEMLIMIT_ERROR with the state kept for a retry; (6) footer of 12 (v0) / 20 (v1) bytes: CRC32 (unless IGNORE_CHECK), data size and (v1) member size each compared with the counted values, any mismatch DATA_ERROR; STREAM_END after a member only when not concatenated; (7) truncation is never reported as success
assume: the nested LZMA1 decoder (lzma_lzma_decoder_init / its code function) is a stub that consumes/produces any amounts within its buffers and returns any code; lzma_crc32 is replaced by a ghost fold function (order- and range-sensitive); the real CRC32 is C14
*/

#include "verif.h"
#include "spec_crc.h"
#include "liblzma/common/common.h"

void *lzma_alloc(size_t s, const lzma_allocator *a) { (void)s; (void)a; return NULL; }
void lzma_free(void *p, const lzma_allocator *a) { (void)p; (void)a; }
/* ghost stand-in for lzma_crc32: a cheap order- and range-sensitive fold. lzip_decode only has to feed
 * exactly the produced bytes, chained, and compare the result; what CRC32 computes is C14's business. */
static uint32_t ghost_fold(const uint8_t *buf, size_t size, uint32_t crc)
{
	for (size_t k = 0; k < size; ++k)
		crc = ((crc << 5) | (crc >> 27)) ^ (uint32_t)(buf[k] + 0x9E37u);
	return crc;
}
uint32_t lzma_crc32(const uint8_t *buf, size_t size, uint32_t crc) { return ghost_fold(buf, size, crc); }
void lzma_next_end(lzma_next_coder *next, const lzma_allocator *a) { (void)a; *next = LZMA_NEXT_CODER_INIT; }
lzma_ret lzma_strm_init(lzma_stream *strm) { (void)strm; return LZMA_PROG_ERROR; }
void lzma_end(lzma_stream *strm) { (void)strm; }
size_t lzma_bufcpy(const uint8_t *restrict in, size_t *restrict in_pos, size_t in_size,
		uint8_t *restrict out, size_t *restrict out_pos, size_t out_size)
{
	const size_t in_avail = in_size - *in_pos, out_avail = out_size - *out_pos;
	const size_t n = in_avail < out_avail ? in_avail : out_avail;
	for (size_t k = 0; k < n; ++k) out[*out_pos + k] = in[*in_pos + k];
	*in_pos += n; *out_pos += n;
	return n;
}

struct in {
	uint32_t seq, version, crc32;
	uint64_t unc, member_size, memlimit, memusage;
	uint8_t tell, ignore, concat, first;
	size_t pos;
	uint8_t fbuf[20];
	uint8_t inb[8];
	size_t in_size, out_size;
	uint32_t action;
	/* nested decoder behaviour */
	uint32_t c_ret, init_ret; size_t c_in, c_out; uint8_t c_byte;
	uint64_t est;
};
static struct in IN VERIF_IN_INIT;

static struct { unsigned inits, codes; uint32_t dict; uint32_t lc, lp, pb; } GZ;

static lzma_ret stub_code(void *c, const lzma_allocator *a, const uint8_t *restrict in, size_t *restrict in_pos, size_t in_size,
		uint8_t *restrict out, size_t *restrict out_pos, size_t out_size, lzma_action action)
{
	(void)c; (void)a; (void)in; (void)action;
	++GZ.codes;
	size_t n = IN.c_in; if (n > in_size - *in_pos) n = in_size - *in_pos;
	size_t m = IN.c_out; if (m > out_size - *out_pos) m = out_size - *out_pos;
	for (size_t k = 0; k < m; ++k) out[*out_pos + k] = (uint8_t)(IN.c_byte + k);
	*in_pos += n; *out_pos += m;
	return (lzma_ret)IN.c_ret;
}
static int NESTED;
lzma_ret lzma_lzma_decoder_init(lzma_next_coder *next, const lzma_allocator *a, const lzma_filter_info *f)
{
	(void)a;
	const lzma_options_lzma *o = f[0].options;
	++GZ.inits; GZ.dict = o->dict_size; GZ.lc = o->lc; GZ.lp = o->lp; GZ.pb = o->pb;
	if (IN.init_ret != LZMA_OK) return (lzma_ret)IN.init_ret;
	next->coder = &NESTED; next->code = &stub_code;
	return LZMA_OK;
}
uint64_t lzma_lzma_decoder_memusage(const void *options) { (void)options; return IN.est; }
lzma_ret lzma_next_filter_init(lzma_next_coder *next, const lzma_allocator *allocator, const lzma_filter_info *filters)
{
	/* as common.c */
	next->init = (uintptr_t)filters[0].init;
	next->id = filters[0].id;
	return filters[0].init == NULL ? LZMA_OK : filters[0].init(next, allocator, filters);
}

#include "liblzma/common/lzip_decoder.c"

static lzma_lzip_coder C;
static uint8_t OUT[8];

/* bytes of the current member consumed so far, as the coder accounts for them */
static uint64_t member_bytes(void)
{
	if (C.sequence == SEQ_ID_STRING) return C.pos;
	if (C.sequence == SEQ_MEMBER_FOOTER) return C.member_size + C.pos;
	return C.member_size;
}

void h_lzip(void)
{
	HAVOC(IN, struct in);
	ASSUME(IN.tell <= 1 && IN.ignore <= 1 && IN.concat <= 1 && IN.first <= 1);
	ASSUME(IN.seq <= SEQ_MEMBER_FOOTER && IN.version <= 1 && IN.action <= 4 && IN.c_ret <= 12 && IN.c_ret != LZMA_BUF_ERROR);
	ASSUME(IN.init_ret == LZMA_OK || IN.init_ret == LZMA_MEM_ERROR || IN.init_ret == LZMA_OPTIONS_ERROR || IN.init_ret == LZMA_PROG_ERROR);
	ASSUME(IN.in_size <= 8 && IN.out_size <= 8);
	ASSUME(IN.member_size <= (UINT64_C(1) << 62) && IN.unc <= (UINT64_C(1) << 62));
	const size_t fsz = IN.version == 0 ? 12 : 20;
	ASSUME(IN.seq == SEQ_ID_STRING ? IN.pos < 4 : (IN.seq == SEQ_MEMBER_FOOTER ? IN.pos < fsz : IN.pos == 0));
	ASSUME(IN.memlimit >= 1);
#ifdef LZIP_SEQ
	ASSUME(IN.seq == LZIP_SEQ);
#endif
	memset(&C, 0, sizeof(C)); memset(&GZ, 0, sizeof(GZ));
	C.sequence = IN.seq;
#ifdef LZIP_SEQ
	C.sequence = LZIP_SEQ;
#endif
	C.version = IN.version; C.crc32 = IN.crc32; C.uncompressed_size = IN.unc; C.member_size = IN.member_size;
	C.memlimit = IN.memlimit; C.memusage = IN.memusage; C.tell_any_check = IN.tell; C.ignore_check = IN.ignore;
	C.concatenated = IN.concat; C.first_member = IN.first; C.pos = IN.pos;
	memcpy(C.buffer, IN.fbuf, 20);
	C.lzma_decoder = LZMA_NEXT_CODER_INIT;
	if (IN.seq >= SEQ_LZMA_STREAM) { C.lzma_decoder.coder = &NESTED; C.lzma_decoder.code = &stub_code; }

	const uint64_t m0 = member_bytes();
	size_t in_pos = 0, out_pos = 0;
	const lzma_ret r = lzip_decode(&C, NULL, IN.inb, &in_pos, IN.in_size, OUT, &out_pos, IN.out_size, (lzma_action)IN.action);
	ASSERT(in_pos <= IN.in_size && out_pos <= IN.out_size, "positions stay inside the buffers");

	/* did a member end (footer completed and accepted) during this call? */
	const bool member_ended = IN.seq == SEQ_MEMBER_FOOTER ? (IN.pos + IN.in_size >= fsz) && r != LZMA_DATA_ERROR
			: (IN.seq == SEQ_LZMA_STREAM && C.sequence != SEQ_LZMA_STREAM && C.sequence != SEQ_MEMBER_FOOTER && r != LZMA_DATA_ERROR && GZ.codes > 0 && IN.c_ret == LZMA_STREAM_END && in_pos >= fsz);
	/* (1) ghost byte count: as long as we stay in one member, the accounted size grows by exactly the bytes consumed */
	const bool same_member = !(IN.seq == SEQ_MEMBER_FOOTER && IN.pos + in_pos >= fsz) && !(GZ.codes > 0 && IN.c_ret == LZMA_STREAM_END && C.sequence != SEQ_MEMBER_FOOTER && IN.seq != SEQ_MEMBER_FOOTER);
	if (same_member && r != LZMA_FORMAT_ERROR && !(r == LZMA_STREAM_END && IN.seq == SEQ_ID_STRING)) {
		if (r == LZMA_OPTIONS_ERROR || r == LZMA_DATA_ERROR) {
			/* fatal: the counter is irrelevant afterwards */
		} else {
			ASSERT(member_bytes() == m0 + in_pos, "member-size counter == bytes of this member consumed so far (on every return path)");
			REACH_IF(r == LZMA_GET_CHECK, lzip_get_check);
		}
	}
	(void)member_ended;

	switch (IN.seq) {
	case SEQ_ID_STRING: {
		static const uint8_t magic[4] = { 'L', 'Z', 'I', 'P' };
		/* first mismatching / missing byte */
		size_t k = 0; bool mismatch = false, eof = false;
		for (size_t p = IN.pos; p < 4; ++p, ++k) {
			if (k >= IN.in_size) { eof = true; break; }
			if (IN.inb[k] != magic[p]) { mismatch = true; break; }
		}
		if (mismatch) {
			ASSERT(r == (IN.first ? LZMA_FORMAT_ERROR : LZMA_STREAM_END), "bad magic: FORMAT_ERROR on the first member, end of the .lz data on later members");
			ASSERT(in_pos == k, "the mismatching byte is left unread (trailing data is not consumed)");
			REACH_IF(!IN.first, lzip_trailing);
		} else if (eof) {
			ASSERT(r == ((!IN.first && IN.action == LZMA_FINISH) ? LZMA_STREAM_END : LZMA_OK) && in_pos == IN.in_size, "input ends inside/before the magic: STREAM_END only between members with LZMA_FINISH");
			if (r == LZMA_STREAM_END && IN.pos + k > 0) { /* partial magic at the very end is accepted as end by design (documented) */ }
			REACH_IF(r == LZMA_STREAM_END, lzip_finish_between);
		} else {
			ASSERT(in_pos >= k, "magic matched");
		}
		break;
	}
	case SEQ_VERSION:
		if (IN.in_size >= 1 && IN.inb[0] > 1) { ASSERT(r == LZMA_OPTIONS_ERROR, "unsupported .lz version"); REACH(lzip_bad_version); }
		if (IN.in_size >= 1 && IN.inb[0] <= 1 && IN.tell) ASSERT(r == LZMA_GET_CHECK && in_pos == 1 && C.sequence == SEQ_DICT_SIZE, "TELL_ANY_CHECK: GET_CHECK right after the version byte");
		break;
	case SEQ_DICT_SIZE:
		if (IN.in_size >= 1) {
			const uint32_t ds = IN.inb[0], b2 = ds & 0x1F, fr = ds >> 5;
			const bool ok = b2 >= 12 && b2 <= 29 && !(b2 == 12 && fr > 0);
			if (!ok) { ASSERT(r == LZMA_DATA_ERROR && GZ.inits == 0, "invalid dictionary size byte"); REACH(lzip_bad_dict); }
			else {
				const uint64_t want = IN.est + LZMA_MEMUSAGE_BASE;
				ASSERT(C.options.dict_size == (UINT32_C(1) << b2) - (fr << (b2 - 4)) && C.options.lc == 3 && C.options.lp == 0 && C.options.pb == 2 && C.options.preset_dict == NULL, "dictionary size and fixed lc/lp/pb of the .lz format");
				ASSERT(C.memusage == want, "memory usage estimate recorded");
				if (want > IN.memlimit) { ASSERT(r == LZMA_MEMLIMIT_ERROR && GZ.inits == 0 && C.sequence == SEQ_CODER_INIT, "memory limit checked before the decoder is allocated; state kept for a retry"); REACH(lzip_memlimit); }
				else ASSERT(GZ.inits == 1 && GZ.dict == C.options.dict_size, "decoder initialised with the decoded options");
			}
		}
		break;
	case SEQ_CODER_INIT:
		if (IN.memusage > IN.memlimit) ASSERT(r == LZMA_MEMLIMIT_ERROR && GZ.inits == 0 && C.sequence == SEQ_CODER_INIT && in_pos == 0, "retry after MEMLIMIT_ERROR re-checks the limit first");
		else { ASSERT(GZ.inits == 1, "init after the limit check"); if (IN.init_ret != LZMA_OK) ASSERT(r == (lzma_ret)IN.init_ret, "init error propagated"); }
		break;
	case SEQ_LZMA_STREAM: {
		size_t m = IN.c_out; if (m > IN.out_size) m = IN.out_size;
		if (IN.c_ret != LZMA_STREAM_END) {
			ASSERT(r == (lzma_ret)IN.c_ret && C.uncompressed_size == IN.unc + m, "data size counted from the bytes produced");
			if (!IN.ignore) ASSERT(C.crc32 == ghost_fold(OUT, m, IN.crc32), "CRC32 accumulated over exactly the bytes produced");
			else ASSERT(C.crc32 == IN.crc32, "IGNORE_CHECK: no CRC work");
			REACH(lzip_stream_continues);
		}
		break;
	}
	case SEQ_MEMBER_FOOTER: {
		if (IN.pos + IN.in_size < fsz) {
			ASSERT(r == LZMA_OK && in_pos == IN.in_size && C.sequence == SEQ_MEMBER_FOOTER && C.pos == IN.pos + IN.in_size, "incomplete footer: wait for more input (never success)");
			REACH(lzip_footer_partial);
			break;
		}
		uint8_t f[20];
		for (size_t k = 0; k < 20; ++k) f[k] = k < IN.pos ? IN.fbuf[k] : (k - IN.pos < 8 ? IN.inb[k - IN.pos] : 0);
		const uint32_t fcrc = (uint32_t)f[0] | ((uint32_t)f[1] << 8) | ((uint32_t)f[2] << 16) | ((uint32_t)f[3] << 24);
		uint64_t fds = 0, fms = 0;
		for (int k = 7; k >= 0; --k) { fds = (fds << 8) | f[4 + k]; fms = (fms << 8) | f[12 + k]; }
		const bool ok = (IN.ignore || fcrc == IN.crc32) && fds == IN.unc && (IN.version == 0 || fms == IN.member_size + fsz);
		if (!ok) { ASSERT(r == LZMA_DATA_ERROR, "footer mismatch (CRC32 / data size / member size) is a data error"); REACH(lzip_footer_bad); }
		else if (!IN.concat) { ASSERT(r == LZMA_STREAM_END && in_pos == fsz - IN.pos, "single member: STREAM_END exactly after the footer"); REACH(lzip_end); }
		else { ASSERT(!C.first_member, "concatenated: the next member is not the first one (trailing data after it is tolerated)"); REACH(lzip_next_member); }
		break;
	}
	default: break;
	}
	/* (7) truncation/corruption is never success */
	if (r == LZMA_STREAM_END)
		ASSERT((IN.seq == SEQ_ID_STRING && !IN.first) || IN.seq == SEQ_MEMBER_FOOTER || IN.seq == SEQ_LZMA_STREAM || (IN.seq != SEQ_ID_STRING && GZ.codes > 0),
				"STREAM_END only at a member boundary");
}
