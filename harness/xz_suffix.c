/* xz command line tool: target file names (src/xz/suffix.c): C19. */

/*@obligation
id: C19.suffix.roundtrip
props: C19
entry: h_suffix_roundtrip
flags: xz
kind: bounded
bound: source names of 1..7 bytes (any bytes except NUL, '/' included but not last), custom suffix absent or 1..5 bytes without '/', formats xz/lzma/raw; string loops completely unwound for those lengths
unwind: 16
fn: suffix_get_dest_name compressed_name uncompressed_name test_suffix
sentinels: 6
expect: 20
timeout: 1500
tier: quick
desc: name mapping of xz for every name/format/custom suffix within the bound, against an independent reference of 'name ends with suffix S, with at least one non-separator character before it': COMPRESSING name gives name+S where S is the custom suffix if set, else .xz/.lzma -- or refuses (NULL, one warning) exactly when name already ends with one of the target format's suffixes (.xz .txz / .lzma .tlz / custom); DECOMPRESSING that target name gives back exactly the original name whenever no built-in suffix matches the target name or no custom suffix is in use; when a custom suffix is in use and the target name ends with a built-in suffix, the built-in table takes precedence (documented exception) and the result is the built-in mapping; the returned strings exactly fill the requested allocation
assume: xrealloc (xmalloc) is a stub handing out two static buffers and recording the requested size; message_warning/tuklib_mask_nonprint are stubs
*/
/*@obligation
id: C19.suffix.decompress
props: C19
entry: h_suffix_decompress
flags: xz
kind: bounded
bound: file names of 1..8 bytes (any bytes except NUL), custom suffix absent or 1..5 bytes without '/', every format value; string loops completely unwound
unwind: 16
fn: suffix_get_dest_name uncompressed_name test_suffix
sentinels: 5
expect: 12
timeout: 1500
tier: quick
desc: target name when decompressing, for every name within the bound: equals the reference mapping (.xz -> strip; .txz -> .tar; .lzma -> strip; .tlz -> .tar; .lz -> strip; first match in that order; raw format ignores the table; then the custom suffix); a name with no known suffix, a name that IS a suffix (nothing would remain) or whose remaining part would end in '/' is refused with exactly one warning and no allocation; the result is never empty and never ends in '/'
assume: xrealloc (xmalloc) stub as above
*/
/*@obligation
id: C19.suffix.set
props: C19
entry: h_suffix_set
flags: xz
kind: bounded
bound: suffix strings of 0..5 bytes
unwind: 10
fn: suffix_set has_dir_sep
sentinels: 2
expect: 3
desc: suffix_set rejects (message_fatal) exactly the empty suffix and suffixes containing '/', and otherwise installs a copy of the given string as the custom suffix
assume: xstrdup stub returns a static copy; message_fatal stub records the call and stops the path
*/

#include "verif.h"
#include <string.h>
#ifdef VERIF_CBMC
/* CBMC's built-in memcpy with a symbolic length can leave the destination unchanged (see spec/memcpy_model.h): plain byte loop instead */
static void *sfx_memcpy(void *d, const void *s, size_t n) { for (size_t k = 0; k < n; ++k) ((char *)d)[k] = ((const char *)s)[k]; return d; }
#define memcpy sfx_memcpy
#endif
#include "suffix.c"

#define NAME_MAX_ 8
#define SUF_MAX_ 5
struct in { uint8_t name[NAME_MAX_ + 1]; uint8_t suf[SUF_MAX_ + 1]; uint32_t nlen, slen, format; uint8_t have_suf; };
static struct in IN VERIF_IN_INIT;

/* ---- stubs ---- */
enum operation_mode opt_mode; enum format_type opt_format;
static struct { unsigned warnings, fatals, allocs; size_t req[2]; } G;
static char ABUF[2][32];
void *xrealloc(void *p, size_t s)
{
	ASSERT(p == NULL && s >= 1 && s <= sizeof(ABUF[0]), "allocation request is sane");
	const unsigned k = G.allocs++;
	ASSERT(k < 2, "at most one allocation per call");
	G.req[k & 1] = s;
	return ABUF[k & 1];
}
static char SDUP[SUF_MAX_ + 1];
char *xstrdup(const char *s) { size_t i = 0; for (; i < SUF_MAX_ && s[i] != '\0'; ++i) SDUP[i] = s[i]; SDUP[i] = '\0'; return SDUP; }
void message_warning(const char *fmt, ...) { (void)fmt; ++G.warnings; }
void message_fatal(const char *fmt, ...)
{
	(void)fmt; ++G.fatals;
#ifdef VERIF_NATIVE
	puts("message_fatal called"); exit(0);
#else
	__CPROVER_assume(0);
#endif
}
const char *tuklib_mask_nonprint(const char *s) { return s; }
const char *tuklib_mask_nonprint_r(const char *s, char **mem) { (void)mem; return s; }

/* ---- independent reference ---- */
/* does name[0..n) end with suf[0..m), with at least one byte before it that is not '/' ?  returns the remaining length or 0 */
static size_t ref_strip(const uint8_t *name, size_t n, const char *suf, size_t m)
{
	if (n <= m) return 0;
	for (size_t i = 0; i < m; ++i) if (name[n - m + i] != (uint8_t)suf[i]) return 0;
	if (name[n - m - 1] == '/') return 0;
	return n - m;
}
struct ref_out { bool ok; uint8_t s[24]; size_t n; };
static void ref_set(struct ref_out *o, const uint8_t *a, size_t an, const char *b, size_t bn)
{
	o->ok = true; o->n = an + bn;
	for (size_t i = 0; i < an; ++i) o->s[i] = a[i];
	for (size_t i = 0; i < bn; ++i) o->s[an + i] = (uint8_t)b[i];
}
static const struct { const char *c; size_t cn; const char *u; size_t un; } REF_TAB[5] = {
	{ ".xz", 3, "", 0 }, { ".txz", 4, ".tar", 4 }, { ".lzma", 5, "", 0 }, { ".tlz", 4, ".tar", 4 }, { ".lz", 3, "", 0 } };
/* built-in table only */
static bool ref_builtin(struct ref_out *o, const uint8_t *name, size_t n)
{
	for (unsigned i = 0; i < 5; ++i) {
		const size_t r = ref_strip(name, n, REF_TAB[i].c, REF_TAB[i].cn);
		if (r != 0) { ref_set(o, name, r, REF_TAB[i].u, REF_TAB[i].un); return true; }
	}
	return false;
}
static void ref_uncompressed(struct ref_out *o, const uint8_t *name, size_t n, bool raw, const uint8_t *suf, size_t m, bool have_suf)
{
	o->ok = false; o->n = 0;
	if (!raw && ref_builtin(o, name, n)) return;
	if (have_suf) { const size_t r = ref_strip(name, n, (const char *)suf, m); if (r != 0) ref_set(o, name, r, "", 0); }
}

static bool str_is(const char *p, const uint8_t *s, size_t n)
{
	for (size_t i = 0; i < n; ++i) if ((uint8_t)p[i] != s[i]) return false;
	return p[n] == '\0';
}

static bool wf(size_t maxname)
{
	if (IN.nlen < 1 || IN.nlen > maxname || IN.have_suf > 1 || IN.slen < 1 || IN.slen > SUF_MAX_) return false;
	for (size_t i = 0; i < NAME_MAX_; ++i) if (i < IN.nlen && IN.name[i] == 0) return false;
	for (size_t i = 0; i < SUF_MAX_; ++i) if (i < IN.slen && (IN.suf[i] == 0 || IN.suf[i] == '/')) return false;
	return true;
}
static void setup(void)
{
	IN.name[IN.nlen] = 0; IN.suf[IN.slen] = 0;
	memset(&G, 0, sizeof(G));
	custom_suffix = IN.have_suf ? (char *)IN.suf : NULL;
}

void h_suffix_roundtrip(void)
{
	HAVOC(IN, struct in);
	ASSUME(wf(7));
	ASSUME(IN.name[IN.nlen - 1] != '/');   /* a path ending in '/' names a directory; io_open_src_real refuses it before any name is computed */
	ASSUME(IN.format == FORMAT_XZ || IN.format == FORMAT_LZMA || IN.format == FORMAT_RAW);
	ASSUME(IN.format != FORMAT_RAW || IN.have_suf);      /* args.c: raw format needs --suffix unless writing to stdout */
	setup();
	opt_format = (enum format_type)IN.format; opt_mode = MODE_COMPRESS;
	const char *d = suffix_get_dest_name((const char *)IN.name);

	/* reference: does the name already carry a suffix of the target format? */
	bool already = false;
	if (IN.format == FORMAT_XZ) already = ref_strip(IN.name, IN.nlen, ".xz", 3) || ref_strip(IN.name, IN.nlen, ".txz", 4);
	if (IN.format == FORMAT_LZMA) already = ref_strip(IN.name, IN.nlen, ".lzma", 5) || ref_strip(IN.name, IN.nlen, ".tlz", 4);
	if (IN.have_suf) already = already || ref_strip(IN.name, IN.nlen, (const char *)IN.suf, IN.slen);
	if (already) {
		ASSERT(d == NULL && G.warnings == 1 && G.allocs == 0, "a name that already carries the target suffix is skipped with one warning");
		REACH(sfx_already);
		return;
	}
	ASSERT(d != NULL && G.warnings == 0, "any other name gets a target name");
	struct ref_out want;
	if (IN.have_suf) ref_set(&want, IN.name, IN.nlen, (const char *)IN.suf, IN.slen);
	else ref_set(&want, IN.name, IN.nlen, IN.format == FORMAT_XZ ? ".xz" : ".lzma", IN.format == FORMAT_XZ ? 3 : 5);
	ASSERT(str_is(d, want.s, want.n), "target name = source name + (custom suffix, else .xz / .lzma)");
	ASSERT(G.req[0] == want.n + 1, "the string exactly fills its allocation");

	/* and back */
	uint8_t dn[14]; for (size_t i = 0; i < sizeof(dn); ++i) dn[i] = i <= want.n ? (uint8_t)d[i] : 0;
	opt_mode = MODE_DECOMPRESS;
	const char *u = suffix_get_dest_name((const char *)dn);
	struct ref_out bi; bi.ok = false; bi.n = 0;
	const bool builtin_hit = IN.format != FORMAT_RAW && ref_builtin(&bi, dn, want.n);
	if (!IN.have_suf || !builtin_hit) {
		ASSERT(u != NULL && str_is(u, IN.name, IN.nlen), "decompressing the target name gives back the original name");
		ASSERT(G.req[1] == IN.nlen + 1, "the string exactly fills its allocation");
		REACH(sfx_roundtrip);
		REACH_IF(IN.have_suf, sfx_roundtrip_custom);
		REACH_IF(IN.format == FORMAT_RAW, sfx_roundtrip_raw);
	} else {
		ASSERT(u != NULL && str_is(u, bi.s, bi.n), "custom suffix spelling a built-in suffix: the built-in mapping takes precedence");
		REACH(sfx_builtin_precedence);
		/* a dotted custom suffix only collides when it itself ends with a built-in suffix */
		if (IN.suf[0] == '.') {
			struct ref_out t;
			uint8_t x[SUF_MAX_ + 2]; x[0] = 'x'; for (size_t i = 0; i <= SUF_MAX_; ++i) x[i + 1] = IN.suf[i];
			ASSERT(ref_builtin(&t, x, IN.slen + 1), "a dotted custom suffix loses only if it ends with a built-in suffix itself");
			REACH(sfx_dotted_collision);
		}
	}
}

void h_suffix_decompress(void)
{
	HAVOC(IN, struct in);
	ASSUME(wf(NAME_MAX_));
	ASSUME(IN.format <= FORMAT_RAW);
	setup();
	opt_format = (enum format_type)IN.format; opt_mode = MODE_DECOMPRESS;
	const char *u = suffix_get_dest_name((const char *)IN.name);
	struct ref_out want;
	ref_uncompressed(&want, IN.name, IN.nlen, IN.format == FORMAT_RAW, IN.suf, IN.slen, IN.have_suf);
	if (!want.ok) {
		ASSERT(u == NULL && G.warnings == 1 && G.allocs == 0, "no known suffix / nothing would remain: skipped with one warning");
		REACH(sfx_unknown);
		return;
	}
	ASSERT(u != NULL && G.warnings == 0 && str_is(u, want.s, want.n), "target name equals the reference mapping");
	ASSERT(G.req[0] == want.n + 1, "the string exactly fills its allocation");
	ASSERT(want.n >= 1 && u[0] != '\0', "the target name is never empty");
	REACH(sfx_known);
	REACH_IF(want.n > IN.nlen - 4 && want.n >= 4 && u[want.n - 1] == 'r', sfx_tar);
	REACH_IF(IN.format == FORMAT_RAW, sfx_raw_custom);
	REACH_IF(IN.have_suf && IN.format != FORMAT_RAW && want.n + IN.slen == IN.nlen && IN.slen != 3 && IN.slen != 5, sfx_custom_strip);
}

void h_suffix_set(void)
{
	HAVOC(IN, struct in);
	ASSUME(IN.slen <= SUF_MAX_);
	for (size_t i = 0; i < SUF_MAX_; ++i) ASSUME(!(i < IN.slen) || IN.suf[i] != 0);
	IN.suf[IN.slen] = 0;
	memset(&G, 0, sizeof(G)); custom_suffix = NULL;
	bool has_sep = false; for (size_t i = 0; i < SUF_MAX_; ++i) if (i < IN.slen && IN.suf[i] == '/') has_sep = true;
	const bool bad = IN.slen == 0 || has_sep;
	REACH_IF(bad, sfx_set_rejected);
	suffix_set((const char *)IN.suf);
	ASSERT(!bad, "an empty suffix or one containing '/' never gets past suffix_set");
	ASSERT(suffix_is_set() && str_is(custom_suffix, IN.suf, IN.slen), "the custom suffix is a copy of the argument");
	REACH(sfx_set_ok);
}
