/* supported_actions tables set by the public initialisation functions (C11, C12). */

/*@obligation
id: C11.supported_actions
props: C11 C12
entry: h_public_init
unwind: 8
extra_src: liblzma/common/common.c liblzma/common/stream_decoder.c liblzma/common/auto_decoder.c liblzma/common/alone_decoder.c liblzma/common/lzip_decoder.c liblzma/common/block_decoder.c liblzma/common/index_decoder.c liblzma/common/file_info.c liblzma/common/stream_encoder.c liblzma/common/alone_encoder.c liblzma/common/block_encoder.c liblzma/common/index_encoder.c liblzma/common/microlzma_encoder.c liblzma/common/microlzma_decoder.c
cbmc: --no-malloc-may-fail
fn: lzma_stream_decoder lzma_auto_decoder lzma_alone_decoder lzma_lzip_decoder lzma_block_decoder lzma_index_decoder lzma_file_info_decoder lzma_stream_encoder lzma_alone_encoder lzma_block_encoder lzma_index_encoder lzma_microlzma_encoder lzma_microlzma_decoder lzma_strm_init
sentinels: 2
expect: 20
replay: none
timeout: 900
desc: each public init function, run for real on a fresh lzma_stream (nested filter/Index/hash initialisers stubbed to succeed), leaves exactly the documented action whitelist in strm->internal->supported_actions: decoders (Stream, auto, .lzma, .lz, Block, Index, file info, MicroLZMA) accept LZMA_RUN and LZMA_FINISH only; lzma_stream_encoder all five actions; lzma_block_encoder RUN, SYNC_FLUSH, FINISH; lzma_alone_encoder and lzma_index_encoder RUN and FINISH; lzma_microlzma_encoder LZMA_FINISH only; the handle starts in ISEQ_RUN with totals zero; together with C11.lzma_code.step every other action is a PROG_ERROR for that coder
assume: nested initialisers (raw coder, index hash, LZMA encoder/decoder, index init, filters copy, header encoders) are stubs that succeed; malloc does not fail here (failure paths: C11.strm_init, C10.*)
*/

#include "verif.h"
#include "liblzma/common/common.h"
#include "liblzma/common/index.h"

struct in { uint32_t which; };
static struct in IN VERIF_IN_INIT;

/* ---- stubs of nested initialisers and helpers referenced by the translation units ---- */
static int OBJ;
lzma_index_hash *lzma_index_hash_init(lzma_index_hash *h, const lzma_allocator *a) { (void)h; (void)a; return (lzma_index_hash *)&OBJ; }
void lzma_index_hash_end(lzma_index_hash *h, const lzma_allocator *a) { (void)h; (void)a; }
lzma_ret lzma_index_hash_append(lzma_index_hash *h, lzma_vli u, lzma_vli c) { (void)h; (void)u; (void)c; return LZMA_OK; }
lzma_ret lzma_index_hash_decode(lzma_index_hash *h, const uint8_t *in, size_t *ip, size_t is) { (void)h; (void)in; (void)ip; (void)is; return LZMA_OK; }
lzma_vli lzma_index_hash_size(const lzma_index_hash *h) { (void)h; return 8; }
lzma_ret lzma_raw_decoder_init(lzma_next_coder *n, const lzma_allocator *a, const lzma_filter *f) { (void)n; (void)a; (void)f; return LZMA_OK; }
lzma_ret lzma_raw_encoder_init(lzma_next_coder *n, const lzma_allocator *a, const lzma_filter *f) { (void)n; (void)a; (void)f; return LZMA_OK; }
uint64_t lzma_raw_decoder_memusage(const lzma_filter *f) { (void)f; return 1; }
uint64_t lzma_raw_encoder_memusage(const lzma_filter *f) { (void)f; return 1; }
lzma_ret lzma_stream_header_decode(lzma_stream_flags *o, const uint8_t *in) { (void)o; (void)in; return LZMA_OK; }
lzma_ret lzma_stream_footer_decode(lzma_stream_flags *o, const uint8_t *in) { (void)o; (void)in; return LZMA_OK; }
lzma_ret lzma_stream_header_encode(const lzma_stream_flags *o, uint8_t *out) { (void)o; (void)out; return LZMA_OK; }
lzma_ret lzma_stream_footer_encode(const lzma_stream_flags *o, uint8_t *out) { (void)o; (void)out; return LZMA_OK; }
lzma_ret lzma_stream_flags_compare(const lzma_stream_flags *a, const lzma_stream_flags *b) { (void)a; (void)b; return LZMA_OK; }
lzma_ret lzma_block_header_decode(lzma_block *b, const lzma_allocator *a, const uint8_t *in) { (void)b; (void)a; (void)in; return LZMA_OK; }
lzma_ret lzma_block_header_size(lzma_block *b) { b->header_size = 12; return LZMA_OK; }
lzma_ret lzma_block_header_encode(const lzma_block *b, uint8_t *out) { (void)b; (void)out; return LZMA_OK; }
lzma_vli lzma_block_unpadded_size(const lzma_block *b) { (void)b; return 16; }
void lzma_filters_free(lzma_filter *f, const lzma_allocator *a) { (void)f; (void)a; }
lzma_ret lzma_filters_copy(const lzma_filter *s, lzma_filter *d, const lzma_allocator *a) { (void)s; (void)a; d[0].id = LZMA_VLI_UNKNOWN; d[0].options = NULL; return LZMA_OK; }
lzma_bool lzma_check_is_supported(lzma_check c) { (void)c; return true; }
uint32_t lzma_check_size(lzma_check c) { (void)c; return 4; }
#include "liblzma/check/check.h"
void lzma_check_init(lzma_check_state *c, lzma_check t) { (void)c; (void)t; }
void lzma_check_update(lzma_check_state *c, lzma_check t, const uint8_t *b, size_t s) { (void)c; (void)t; (void)b; (void)s; }
void lzma_check_finish(lzma_check_state *c, lzma_check t) { (void)c; (void)t; }
uint32_t lzma_crc32(const uint8_t *b, size_t s, uint32_t c) { (void)b; (void)s; return c; }
lzma_index *lzma_index_init(const lzma_allocator *a) { (void)a; return (lzma_index *)&OBJ; }
void lzma_index_end(lzma_index *i, const lzma_allocator *a) { (void)i; (void)a; }
lzma_ret lzma_index_append(lzma_index *i, const lzma_allocator *a, lzma_vli u, lzma_vli c) { (void)i; (void)a; (void)u; (void)c; return LZMA_OK; }
lzma_vli lzma_index_size(const lzma_index *i) { (void)i; return 8; }
lzma_vli lzma_index_block_count(const lzma_index *i) { (void)i; return 0; }
uint32_t lzma_index_padding_size(const lzma_index *i) { (void)i; return 0; }
void lzma_index_iter_init(lzma_index_iter *it, const lzma_index *i) { (void)it; (void)i; }
lzma_bool lzma_index_iter_next(lzma_index_iter *it, lzma_index_iter_mode m) { (void)it; (void)m; return true; }
uint64_t lzma_index_memusage(lzma_vli s, lzma_vli b) { (void)s; (void)b; return 1; }
uint64_t lzma_index_memused(const lzma_index *i) { (void)i; return 1; }
void lzma_index_prealloc(lzma_index *i, lzma_vli r) { (void)i; (void)r; }
lzma_vli lzma_index_total_size(const lzma_index *i) { (void)i; return 0; }
lzma_vli lzma_index_file_size(const lzma_index *i) { (void)i; return 0; }
lzma_ret lzma_index_stream_flags(lzma_index *i, const lzma_stream_flags *f) { (void)i; (void)f; return LZMA_OK; }
lzma_ret lzma_index_stream_padding(lzma_index *i, lzma_vli p) { (void)i; (void)p; return LZMA_OK; }
lzma_ret lzma_index_cat(lzma_index *d, lzma_index *s, const lzma_allocator *a) { (void)d; (void)s; (void)a; return LZMA_OK; }
lzma_ret lzma_vli_decode(lzma_vli *v, size_t *vp, const uint8_t *in, size_t *ip, size_t is) { (void)v; (void)vp; (void)in; (void)ip; (void)is; return LZMA_OK; }
lzma_ret lzma_vli_encode(lzma_vli v, size_t *vp, uint8_t *out, size_t *op, size_t os) { (void)v; (void)vp; (void)out; (void)op; (void)os; return LZMA_OK; }
uint32_t lzma_vli_size(lzma_vli v) { (void)v; return 1; }
lzma_ret lzma_lzma_decoder_init(lzma_next_coder *n, const lzma_allocator *a, const lzma_filter_info *f) { (void)n; (void)a; (void)f; return LZMA_OK; }
lzma_ret lzma_lzma_encoder_init(lzma_next_coder *n, const lzma_allocator *a, const lzma_filter_info *f) { (void)n; (void)a; (void)f; return LZMA_OK; }
uint64_t lzma_lzma_decoder_memusage(const void *o) { (void)o; return 1; }
bool lzma_lzma_lclppb_decode(lzma_options_lzma *o, uint8_t b) { (void)o; (void)b; return false; }
bool lzma_lzma_lclppb_encode(const lzma_options_lzma *o, uint8_t *b) { (void)o; *b = 0x5D; return false; }
lzma_ret lzma_stream_decoder_init_dummy(void);

static bool only(const lzma_stream *s, bool run, bool sync, bool full, bool fin, bool barrier)
{
	const bool *a = s->internal->supported_actions;
	return a[LZMA_RUN] == run && a[LZMA_SYNC_FLUSH] == sync && a[LZMA_FULL_FLUSH] == full && a[LZMA_FINISH] == fin && a[LZMA_FULL_BARRIER] == barrier;
}

void h_public_init(void)
{
	HAVOC(IN, struct in);
	ASSUME(IN.which < 13);
	lzma_stream s = LZMA_STREAM_INIT;
	lzma_filter flt[2] = { { .id = LZMA_FILTER_LZMA2, .options = NULL }, { .id = LZMA_VLI_UNKNOWN, .options = NULL } };
	lzma_options_lzma ol; memset(&ol, 0, sizeof(ol)); ol.dict_size = 1 << 20; ol.lc = 3; ol.pb = 2; ol.nice_len = 64; ol.mode = LZMA_MODE_NORMAL; ol.mf = LZMA_MF_BT4;
	lzma_block blk; memset(&blk, 0, sizeof(blk)); blk.version = 1; blk.header_size = 12; blk.check = LZMA_CHECK_CRC32; blk.compressed_size = LZMA_VLI_UNKNOWN; blk.uncompressed_size = LZMA_VLI_UNKNOWN; blk.filters = flt;
	lzma_index *idx = NULL;
	lzma_ret r = LZMA_PROG_ERROR;
	bool dec = true, exp_ok = false;
	switch (IN.which) {
	case 0: r = lzma_stream_decoder(&s, UINT64_MAX, 0); break;
	case 1: r = lzma_auto_decoder(&s, UINT64_MAX, 0); break;
	case 2: r = lzma_alone_decoder(&s, UINT64_MAX); break;
	case 3: r = lzma_lzip_decoder(&s, UINT64_MAX, 0); break;
	case 4: r = lzma_block_decoder(&s, &blk); break;
	case 5: r = lzma_index_decoder(&s, &idx, UINT64_MAX); break;
	case 6: r = lzma_file_info_decoder(&s, &idx, UINT64_MAX, 1024); break;
	case 7: r = lzma_microlzma_decoder(&s, 100, 200, true, 1 << 20); break;
	case 8: r = lzma_stream_encoder(&s, flt, LZMA_CHECK_CRC32); dec = false; break;
	case 9: r = lzma_alone_encoder(&s, &ol); dec = false; break;
	case 10: r = lzma_block_encoder(&s, &blk); dec = false; break;
	case 11: r = lzma_index_encoder(&s, (const lzma_index *)&OBJ); dec = false; break;
	default: r = lzma_microlzma_encoder(&s, &ol); dec = false; break;
	}
	ASSERT(r == LZMA_OK && s.internal != NULL, "initialisation succeeds with the nested initialisers stubbed");
	ASSERT(s.internal->sequence == ISEQ_RUN && s.total_in == 0 && s.total_out == 0 && !s.internal->allow_buf_error && s.internal->next.code != NULL, "fresh handle state");
	if (dec) { exp_ok = only(&s, true, false, false, true, false); ASSERT(exp_ok, "decoders support LZMA_RUN and LZMA_FINISH only"); REACH(pi_decoder); }
	else switch (IN.which) {
	case 8: ASSERT(only(&s, true, true, true, true, true), "lzma_stream_encoder supports all five actions"); REACH(pi_stream_encoder); break;
	case 10: ASSERT(only(&s, true, true, false, true, false), "lzma_block_encoder: RUN, SYNC_FLUSH, FINISH"); break;
	case 9: case 11: ASSERT(only(&s, true, false, false, true, false), "lzma_alone_encoder / lzma_index_encoder: RUN and FINISH"); break;
	default: ASSERT(only(&s, false, false, false, true, false), "lzma_microlzma_encoder: LZMA_FINISH only"); break;
	}
}
