/* xz: coder_normal's coding loop under an in-source LOOP CONTRACT (unbounded): C17, C18. */

/*@obligation
id: C17.coder_normal.loop
props: C17 C18
entry: h_coder_normal_lc
flags: xz
loopcontracts: yes
unwind: 3
nondet_volatile: user_abort
fn: coder_normal coder_write_output
sentinels: 3
expect: 20
replay: none
timeout: 1800
desc: UNBOUNDED version of C17.coder_normal: the while(!user_abort) loop of the real coder_normal carries a loop contract (hook VERIF_CODER_NORMAL_LOOP_CONTRACT in src/xz/coder.c, defined here): invariant = success is still false, no read or write has failed, the output buffer pointer/amount are consistent, bytes produced by lzma_code == bytes already written + bytes waiting in the output buffer, bytes consumed + bytes pending == bytes read, and the block-splitting bookkeeping is consistent. CBMC proves the invariant holds on entry, is preserved by an arbitrary iteration (lzma_code returning ANY code and amounts, io_read/io_write failing or not, a signal at any check), and that on EVERY exit from the loop the function's result satisfies: true only after LZMA_STREAM_END, with every produced byte handed to a successful io_write, the output buffer empty, no failed read/write, and -- unless trailing input is allowed -- the input at EOF with nothing left; for any number of iterations
assume: lzma_code/io_read/io_write/io_fix_src_pos/message_xxx/hardware_threads_is_mt are stubs with fresh nondeterministic results at every call; --block-list is not in use; termination of the loop is not proved (no decreases clause)
*/

/*@obligation
id: C17.coder_passthru.loop
props: C17 C18
entry: h_coder_passthru_lc
flags: xz
loopcontracts: yes
unwind: 3
nondet_volatile: user_abort
fn: coder_passthru
sentinels: 2
expect: 10
replay: none
timeout: 900
desc: UNBOUNDED version of C17.coder_passthru (hook VERIF_CODER_PASSTHRU_LOOP_CONTRACT): invariant = nothing failed so far and bytes written + bytes pending == bytes read; on every exit the result is true only if no io_write and no io_read failed, no signal was seen, and everything that was read has been written (the copy ended at a read that returned 0); for any number of rounds
assume: io_read/io_write/message_progress_update are stubs with fresh nondeterministic results at every call; termination is not proved
*/

#include "verif.h"
#include <stdint.h>
#include <stddef.h>
#include <stdbool.h>

/* ghost state of the stubs; defined before the real translation unit because the loop contract talks about it */
static struct {
	unsigned code_calls, reads, writes;
	uint32_t last_ret;
	uint64_t produced, written, read_total, consumed;
	bool read_failed, write_failed, write_bad_args;
} G;
struct in { uint8_t src_eof, trailing, test_mode, compress, format_xz, mt, flush_needed; uint64_t block_size; size_t avail_in; };
static struct in IN VERIF_IN_INIT;

#define VERIF_CODER_NORMAL_LOOP_CONTRACT \
	__CPROVER_assigns(success, action, ret, block_remaining, next_block_remaining, list_pos, strm, G, *pair) \
	__CPROVER_loop_invariant(!success) \
	__CPROVER_loop_invariant(!G.read_failed && !G.write_failed && !G.write_bad_args) \
	__CPROVER_loop_invariant(strm.avail_out <= IO_BUFFER_SIZE && __CPROVER_same_object(strm.next_out, out_buf.u8) \
		&& __CPROVER_POINTER_OFFSET(strm.next_out) == __CPROVER_POINTER_OFFSET(out_buf.u8) + (IO_BUFFER_SIZE - strm.avail_out)) \
	__CPROVER_loop_invariant(strm.avail_in <= IO_BUFFER_SIZE && (strm.avail_in == 0 || (__CPROVER_same_object(strm.next_in, in_buf.u8) \
		&& __CPROVER_POINTER_OFFSET(strm.next_in) + strm.avail_in <= __CPROVER_POINTER_OFFSET(in_buf.u8) + IO_BUFFER_SIZE))) \
	__CPROVER_loop_invariant(opt_mode == MODE_TEST ? G.written == 0 : G.written + (IO_BUFFER_SIZE - strm.avail_out) == G.produced) \
	__CPROVER_loop_invariant(G.consumed + strm.avail_in == IN.avail_in + G.read_total) \
	__CPROVER_loop_invariant(opt_mode != MODE_TEST || G.writes == 0) \
	__CPROVER_loop_invariant(block_remaining == UINT64_MAX || (opt_block_size > 0 && !IN.mt && opt_mode == MODE_COMPRESS && opt_format == FORMAT_XZ)) \
	__CPROVER_loop_invariant(action != LZMA_FULL_BARRIER || (block_remaining == 0)) \
	__CPROVER_loop_invariant(action == LZMA_RUN || action == LZMA_SYNC_FLUSH || action == LZMA_FULL_BARRIER || action == LZMA_FINISH)

#define VERIF_CODER_PASSTHRU_LOOP_CONTRACT \
	__CPROVER_assigns(strm, G, *pair) \
	__CPROVER_loop_invariant(!G.read_failed && !G.write_failed && !G.write_bad_args) \
	__CPROVER_loop_invariant(strm.avail_in <= IO_BUFFER_SIZE) \
	__CPROVER_loop_invariant(G.written + strm.avail_in == IN.avail_in + G.read_total)

static bool g_passthru;
#include "coder.c"

/* fresh nondeterministic values at every call (no scripts: the number of calls is unbounded) */
uint32_t nondet_verif_u32(void);
size_t nondet_verif_size(void);
uint8_t nondet_verif_u8(void);

lzma_ret lzma_code(lzma_stream *s, lzma_action action)
{
	(void)action;
	++G.code_calls;
	const size_t ui = nondet_verif_size(), mo = nondet_verif_size();
	const uint32_t r = nondet_verif_u32();
	__CPROVER_assume(ui <= s->avail_in && mo <= s->avail_out && r <= LZMA_RET_INTERNAL8);
	/* liblzma contract (api/lzma/base.h): these three codes come from decoders only */
	__CPROVER_assume(!IN.compress || (r != LZMA_UNSUPPORTED_CHECK && r != LZMA_NO_CHECK && r != LZMA_GET_CHECK));
	s->avail_in -= ui; if (ui > 0) s->next_in += ui;
	s->avail_out -= mo; if (mo > 0) s->next_out += mo;
	G.produced += mo; G.consumed += ui;
	G.last_ret = r;
	return (lzma_ret)r;
}
uint64_t lzma_memusage(const lzma_stream *s) { (void)s; return 0; }

size_t io_read(file_pair *pair, io_buf *buf, size_t size)
{
	++G.reads;
	if (buf != &in_buf || size > IO_BUFFER_SIZE) G.write_bad_args = true;
	if (nondet_verif_u8() & 1) { G.read_failed = true; return SIZE_MAX; }
	const size_t n = nondet_verif_size();
	__CPROVER_assume(n <= size);
	if (n < size || (nondet_verif_u8() & 1)) pair->src_eof = true;
	G.read_total += n;
	return n;
}
bool io_write(file_pair *pair, const io_buf *buf, size_t size)
{
	(void)pair;
	++G.writes;
	if (g_passthru ? (buf != &in_buf || size != strm.avail_in) : (buf != &out_buf || size != IO_BUFFER_SIZE - strm.avail_out)) G.write_bad_args = true;
	if (nondet_verif_u8() & 1) { G.write_failed = true; return true; }
	G.written += size;
	return false;
}
void io_fix_src_pos(file_pair *pair, size_t rewind_size) { (void)pair; (void)rewind_size; }

/* ---- the rest of xz ---- */
volatile sig_atomic_t user_abort;
bool opt_robot, opt_ignore_check, opt_keep_original, opt_force, opt_stdout;
void message_warning(const char *fmt, ...) { (void)fmt; }
void message_error(const char *fmt, ...) { (void)fmt; }
void message_fatal(const char *fmt, ...) { (void)fmt; __CPROVER_assume(0); }
void message_bug(void) { __CPROVER_assert(0, "message_bug() reached"); __CPROVER_assume(0); }
void message(enum message_verbosity v, const char *fmt, ...) { (void)v; (void)fmt; }
const char *message_strm(lzma_ret r) { (void)r; return "x"; }
void message_mem_needed(enum message_verbosity v, uint64_t m) { (void)v; (void)m; }
void message_progress_update(void) {}
const char *tuklib_mask_nonprint(const char *s) { return s; }
bool hardware_threads_is_mt(void) { return IN.mt; }

static file_pair PAIR;
static char NAME[] = "f";

void h_coder_normal_lc(void)
{
	HAVOC(IN, struct in);
	ASSUME(IN.src_eof <= 1 && IN.trailing <= 1 && IN.test_mode <= 1 && IN.compress <= 1 && IN.format_xz <= 1 && IN.mt <= 1 && IN.flush_needed <= 1
		&& IN.avail_in <= IO_BUFFER_SIZE && (IN.block_size == 0 || !IN.mt || !IN.compress));
	ASSUME(!(IN.test_mode && IN.compress));
	ASSUME(!IN.compress || IN.avail_in == 0);
	memset(&G, 0, sizeof(G)); memset(&PAIR, 0, sizeof(PAIR));
	PAIR.src_name = NAME; PAIR.src_eof = IN.src_eof; PAIR.flush_needed = IN.flush_needed;
	opt_mode = IN.test_mode ? MODE_TEST : (IN.compress ? MODE_COMPRESS : MODE_DECOMPRESS);
	opt_format = IN.format_xz ? FORMAT_XZ : FORMAT_LZMA;
	opt_block_size = IN.block_size; opt_block_list = NULL;
	allow_trailing_input = IN.trailing;
	const lzma_stream init = LZMA_STREAM_INIT; strm = init;
	strm.next_in = in_buf.u8; strm.avail_in = IN.avail_in;

	g_passthru = false;   /* statics are not reliably zero under the contract instrumentation: set explicitly */
	const bool success = coder_normal(&PAIR);

	if (success) {
		ASSERT(G.last_ret == LZMA_STREAM_END, "success only after lzma_code reported LZMA_STREAM_END");
		ASSERT(!G.read_failed && !G.write_failed, "success only if no read and no write failed");
		if (!IN.test_mode) ASSERT(G.written == G.produced && strm.avail_out == IO_BUFFER_SIZE, "success only after every produced byte went through a successful io_write (output buffer empty)");
		if (!IN.trailing) ASSERT(strm.avail_in == 0 && PAIR.src_eof, "success only at the end of the input: nothing unread, no trailing garbage");
		REACH(lc_success);
	}
	ASSERT(!G.write_bad_args, "io_write always gets the output buffer from its start with exactly the produced amount; io_read the input buffer");
	if (IN.test_mode) ASSERT(G.writes == 0, "test mode writes nothing");
	if (G.write_failed || G.read_failed) { ASSERT(!success, "a failed read or write is never a success"); REACH(lc_io_failed); }
	if (!G.read_failed) ASSERT(G.consumed + strm.avail_in == IN.avail_in + G.read_total, "input accounting: bytes consumed by the coder + bytes still pending == bytes read (the coder is only fed bytes that were read)");
	REACH_IF(!success && !G.write_failed && !G.read_failed, lc_other_failure);
}


void h_coder_passthru_lc(void)
{
	HAVOC(IN, struct in);
	ASSUME(IN.avail_in <= IO_BUFFER_SIZE && IN.src_eof <= 1);
	memset(&G, 0, sizeof(G)); memset(&PAIR, 0, sizeof(PAIR));
	PAIR.src_name = NAME; PAIR.src_eof = IN.src_eof;
	g_passthru = true;
	const lzma_stream init = LZMA_STREAM_INIT; strm = init;
	strm.next_in = in_buf.u8; strm.avail_in = IN.avail_in;
	const bool success = coder_passthru(&PAIR);
	if (success) {
		ASSERT(!G.write_failed && !G.read_failed && !G.write_bad_args, "success only if nothing failed");
		ASSERT(strm.avail_in == 0 && G.written == IN.avail_in + G.read_total, "everything read was written");
		REACH(ptl_success);
	}
	if (G.write_failed || G.read_failed) { ASSERT(!success, "a failed read or write is never a success"); REACH(ptl_failed); }
}
