/* Block decoder (src/liblzma/common/block_decoder.c): C03, C05, C04, C06. */

/*@obligation
id: C05.block.code
props: C03 C05 C04
entry: h_block_code
unwind: 70
restrict: block_decode.function_pointer_call.1/stub_code
fn: block_decode
sentinels: 5
expect: 30
desc: block_decode SEQ_CODE from ANY counter state, nested filter chain as a nondeterministic stub: the nested coder never gets more input than the Block's remaining compressed limit nor more output room than the remaining uncompressed limit; counters advance by exactly the bytes used; the check is updated over exactly the produced bytes; when the nested coder ends, the counted sizes must EQUAL the sizes declared in the Block Header (when present) or the Block is rejected with DATA_ERROR -- a header that lies about a size is never accepted -- and only then are the counted sizes published in lzma_block; a nested OK with both declared sizes exhausted, or one exhausted while the caller still has the other resource, is DATA_ERROR (no endless loop on a corrupt Block)
assume: the nested coder obeys the generic coder contract; lzma_check_update is a recording stub (C14 covers the checks)
*/
/*@obligation
id: C05.block.tail
props: C03 C05 C06 C04
entry: h_block_tail
unwind: 70
restrict: block_decode.function_pointer_call.1/stub_code
fn: block_decode
sentinels: 5
expect: 30
desc: block_decode SEQ_PADDING / SEQ_CHECK with up to 8 input bytes from any position state: Block Padding is 0..3 bytes making the compressed size a multiple of four, each must be 0x00 (else DATA_ERROR); STREAM_END without a Check field only for LZMA_CHECK_NONE; the Check field of lzma_check_size() bytes is buffered position-driven (any slicing) and compared with the computed check unless the check is ignored or unsupported; a mismatch is DATA_ERROR; an incomplete tail is never success
assume: lzma_check_finish / lzma_check_is_supported are stubs; lzma_check_size is the real table (C14.check.dispatch)
*/

#include "verif.h"
#include "liblzma/common/common.h"
#include "liblzma/check/check.h"

struct in {
	uint32_t seq; uint64_t comp, unc, comp_limit, unc_limit, blk_comp, blk_unc;
	size_t check_pos; uint8_t ignore; uint32_t check;
	uint8_t inb[8]; size_t in_size, out_size; uint32_t action;
	uint32_t c_ret; size_t c_in, c_out;
	uint8_t computed[64], raw[64]; uint8_t supported;
};
static struct in IN VERIF_IN_INIT;

static struct { unsigned codes, updates, finishes; size_t in_room, out_room, upd_size; const uint8_t *upd_buf; } GB;

size_t lzma_bufcpy(const uint8_t *restrict in, size_t *restrict in_pos, size_t in_size,
		uint8_t *restrict out, size_t *restrict out_pos, size_t out_size)
{
	const size_t in_avail = in_size - *in_pos, out_avail = out_size - *out_pos;
	const size_t n = in_avail < out_avail ? in_avail : out_avail;
	for (size_t k = 0; k < n; ++k) out[*out_pos + k] = in[*in_pos + k];
	*in_pos += n; *out_pos += n;
	return n;
}
void lzma_check_init(lzma_check_state *c, lzma_check t) { (void)c; (void)t; }
void lzma_check_update(lzma_check_state *c, lzma_check t, const uint8_t *b, size_t s) { (void)c; (void)t; ++GB.updates; GB.upd_buf = b; GB.upd_size = s; }
void lzma_check_finish(lzma_check_state *c, lzma_check t) { (void)t; ++GB.finishes; memcpy(c->buffer.u8, IN.computed, 64); }
lzma_bool lzma_check_is_supported(lzma_check t) { (void)t; return IN.supported; }
uint32_t lzma_check_size(lzma_check type)
{
	static const uint8_t sz[16] = { 0, 4, 4, 4, 8, 8, 8, 16, 16, 16, 32, 32, 32, 64, 64, 64 };
	return (unsigned)type > 15 ? UINT32_MAX : sz[(unsigned)type];
}
lzma_vli lzma_block_unpadded_size(const lzma_block *b) { (void)b; return 8; }
lzma_ret lzma_raw_decoder_init(lzma_next_coder *n, const lzma_allocator *a, const lzma_filter *f) { (void)n; (void)a; (void)f; return LZMA_OK; }
void *lzma_alloc(size_t s, const lzma_allocator *a) { (void)s; (void)a; return NULL; }
void lzma_free(void *p, const lzma_allocator *a) { (void)p; (void)a; }
void lzma_next_end(lzma_next_coder *n, const lzma_allocator *a) { (void)a; *n = LZMA_NEXT_CODER_INIT; }
lzma_ret lzma_strm_init(lzma_stream *s) { (void)s; return LZMA_PROG_ERROR; }
void lzma_end(lzma_stream *s) { (void)s; }

static lzma_ret stub_code(void *c, const lzma_allocator *a, const uint8_t *restrict in, size_t *restrict in_pos, size_t in_size,
		uint8_t *restrict out, size_t *restrict out_pos, size_t out_size, lzma_action action)
{
	(void)c; (void)a; (void)in; (void)out; (void)action;
	++GB.codes; GB.in_room = in_size - *in_pos; GB.out_room = out_size - *out_pos;
	size_t n = IN.c_in; if (n > in_size - *in_pos) n = in_size - *in_pos;
	size_t m = IN.c_out; if (m > out_size - *out_pos) m = out_size - *out_pos;
	*in_pos += n; *out_pos += m;
	return (lzma_ret)IN.c_ret;
}

#include "liblzma/common/block_decoder.c"

static lzma_block_coder C;
static lzma_block B;
static uint8_t OUT[8];
static int NESTED;

static void setup(void)
{
	memset(&C, 0, sizeof(C)); memset(&B, 0, sizeof(B)); memset(&GB, 0, sizeof(GB));
	C.sequence = IN.seq; C.block = &B; C.compressed_size = IN.comp; C.uncompressed_size = IN.unc;
	C.compressed_limit = IN.comp_limit; C.uncompressed_limit = IN.unc_limit; C.check_pos = IN.check_pos; C.ignore_check = IN.ignore;
	C.next.coder = &NESTED; C.next.code = &stub_code;
	B.compressed_size = IN.blk_comp; B.uncompressed_size = IN.blk_unc; B.check = (lzma_check)IN.check;
	memcpy(B.raw_check, IN.raw, 64);
	memcpy(C.check.buffer.u8, IN.computed, 64);
}

static bool wf(void)
{
	/* limits as set by lzma_block_decoder_init: the declared size, or the format maximum when unknown */
	return IN.ignore <= 1 && IN.supported <= 1 && IN.check <= 15 && IN.in_size <= 8 && IN.out_size <= 8 && IN.action <= 4
		&& IN.c_ret <= 12 && IN.c_ret != LZMA_BUF_ERROR
		&& (IN.blk_comp == LZMA_VLI_UNKNOWN ? IN.comp_limit <= (LZMA_VLI_MAX & ~LZMA_VLI_C(3)) : (IN.comp_limit == IN.blk_comp && IN.blk_comp <= LZMA_VLI_MAX))
		&& (IN.blk_unc == LZMA_VLI_UNKNOWN ? IN.unc_limit == LZMA_VLI_MAX : (IN.unc_limit == IN.blk_unc && IN.blk_unc <= LZMA_VLI_MAX))
		&& IN.comp <= IN.comp_limit && IN.unc <= IN.unc_limit;
}

void h_block_code(void)
{
	HAVOC(IN, struct in);
	ASSUME(wf() && IN.seq == SEQ_CODE && IN.check_pos == 0 && IN.comp <= LZMA_VLI_MAX - 16);
	/* the nested coder cannot finish in the same call in which input runs dry in this obligation's tail (tail: C05.block.tail) */
	setup();
	C.sequence = SEQ_CODE;
	size_t in_pos = 0, out_pos = 0;
	const lzma_ret r = block_decode(&C, NULL, IN.inb, &in_pos, IN.in_size, OUT, &out_pos, IN.out_size, (lzma_action)IN.action);
	ASSERT(GB.codes == 1, "nested coder called once");
	const uint64_t comp_left = IN.comp_limit - IN.comp, unc_left = IN.unc_limit - IN.unc;
	ASSERT(GB.in_room == (IN.in_size < comp_left ? IN.in_size : comp_left), "nested coder gets at most the Block's remaining compressed bytes");
	ASSERT(GB.out_room == (IN.out_size < unc_left ? IN.out_size : unc_left), "nested coder may produce at most the Block's remaining uncompressed bytes");
	size_t n = IN.c_in; if (n > GB.in_room) n = GB.in_room;
	size_t m = IN.c_out; if (m > GB.out_room) m = GB.out_room;
	ASSERT(C.compressed_size >= IN.comp + n && C.uncompressed_size == IN.unc + m, "counters advance by the bytes used");
	if (!IN.ignore && m > 0 && !(IN.c_ret == LZMA_OK && r == LZMA_DATA_ERROR))
		ASSERT(GB.updates == 1 && GB.upd_buf == OUT && GB.upd_size == m, "integrity check updated over exactly the bytes produced");
	if (IN.ignore) ASSERT(GB.updates == 0, "ignore_check: no check computation");
	const uint64_t comp = IN.comp + n, unc = IN.unc + m;
	if (IN.c_ret == LZMA_OK) {
		const bool cd = comp == IN.blk_comp, ud = unc == IN.blk_unc;
		if ((cd && ud) || (cd && m < IN.out_size && out_pos < IN.out_size) || (ud && in_pos < IN.in_size)) {
			ASSERT(r == LZMA_DATA_ERROR, "declared sizes exhausted but the filter chain has not ended: corrupt Block");
			REACH(blk_exhausted);
		} else {
			ASSERT(r == LZMA_OK && C.sequence == SEQ_CODE, "Block continues");
			REACH(blk_continues);
		}
	} else if (IN.c_ret != LZMA_STREAM_END) {
		ASSERT(r == (lzma_ret)IN.c_ret, "nested error/info code passed on");
		REACH(blk_error);
	} else {
		const bool sizes_ok = (IN.blk_comp == LZMA_VLI_UNKNOWN || IN.blk_comp == comp) && (IN.blk_unc == LZMA_VLI_UNKNOWN || IN.blk_unc == unc);
		if (!sizes_ok) {
			ASSERT(r == LZMA_DATA_ERROR, "the sizes in the Block Header must equal the real sizes");
			ASSERT(B.compressed_size == IN.blk_comp && B.uncompressed_size == IN.blk_unc, "rejected Block: declared sizes not overwritten");
			REACH(blk_size_mismatch);
		} else {
			ASSERT(r != LZMA_PROG_ERROR, "Block data ended consistently");
			ASSERT(B.compressed_size == comp && B.uncompressed_size == unc, "the counted sizes are published (used for the Index)");
			REACH(blk_data_end);
		}
	}
}

void h_block_tail(void)
{
	HAVOC(IN, struct in);
	ASSUME(wf() && (IN.seq == SEQ_PADDING || IN.seq == SEQ_CHECK));
	const uint32_t csz = lzma_check_size((lzma_check)IN.check);
	ASSUME(IN.seq == SEQ_CHECK ? ((IN.comp & 3) == 0 && IN.check_pos < csz && IN.check != LZMA_CHECK_NONE) : IN.check_pos == 0);
	ASSUME(IN.comp <= LZMA_VLI_MAX - 8);
	setup();
	size_t in_pos = 0, out_pos = 0;
	const lzma_ret r = block_decode(&C, NULL, IN.inb, &in_pos, IN.in_size, OUT, &out_pos, 0, (lzma_action)IN.action);
	ASSERT(GB.codes == 0 && out_pos == 0, "no decoding in the Block tail");
	size_t p = 0;
	if (IN.seq == SEQ_PADDING) {
		const unsigned need = (unsigned)((4 - (IN.comp & 3)) & 3);
		for (unsigned k = 0; k < 3; ++k) {
			if (k >= need) break;
			if (p >= IN.in_size) { ASSERT(r == LZMA_OK && in_pos == IN.in_size, "padding incomplete: wait for input (never success)"); REACH(tail_pad_wait); return; }
			if (IN.inb[p] != 0) { ASSERT(r == LZMA_DATA_ERROR, "non-zero Block Padding byte"); REACH(tail_pad_bad); return; }
			++p;
		}
		ASSERT(((IN.comp + p) & 3) == 0, "padded size is a multiple of four");
		if (IN.check == LZMA_CHECK_NONE) { ASSERT(r == LZMA_STREAM_END && in_pos == p, "no Check field for LZMA_CHECK_NONE"); REACH(tail_none); return; }
		if (!IN.ignore) ASSERT(GB.finishes == 1, "check finalised once, after the padding");
	}
	const size_t have = IN.check_pos + (IN.in_size - p);
	if (have < csz) { ASSERT(r == LZMA_OK && C.check_pos == have && in_pos == IN.in_size, "Check field incomplete: buffered, never success"); REACH(tail_check_wait); return; }
	ASSERT(in_pos == p + (csz - IN.check_pos), "exactly the Check field is consumed");
	/* the stored check: earlier buffered bytes + new input */
	bool equal = true;
	for (size_t k = 0; k < 64; ++k) {
		if (k >= csz) break;
		const uint8_t stored = k < IN.check_pos ? IN.raw[k] : IN.inb[p + (k - IN.check_pos)];
		if (stored != IN.computed[k]) equal = false;
	}
	if (!IN.ignore && IN.supported && !equal) { ASSERT(r == LZMA_DATA_ERROR, "stored Check differs from the computed one"); REACH(tail_check_bad); }
	else { ASSERT(r == LZMA_STREAM_END, "Block ends"); }
}
