/* xz command line tool: the coding loop and the success flag that authorises removing the source (src/xz/coder.c): C17. */

/*@obligation
id: C17.coder_normal
props: C17 C18
entry: h_coder_normal
flags: xz
kind: bounded
bound: histories of at most 4 lzma_code() calls per file (each call, read and write with arbitrary results); the loop body does not depend on the iteration number
defs: -DCN_MAXCALLS=4
unwind: 8
nondet_volatile: user_abort
fn: coder_normal coder_write_output
sentinels: 5
expect: 20
replay: none
timeout: 900
desc: coder_normal with liblzma and all I/O replaced by nondeterministic stubs (lzma_code may return ANY code and consume/produce any amounts, io_read may fail or hit EOF at any call, io_write may fail at any call, a signal may arrive at any check of user_abort): it returns true (the ONLY thing that lets io_close remove the source) only if the last lzma_code call returned LZMA_STREAM_END, no read or write failed, every byte lzma_code produced was handed to a successful io_write before returning (ghost byte accounting; nothing is left in the output buffer), and -- unless trailing input is allowed (single-stream/lzip-style modes) -- the input was at EOF with nothing left over (trailing garbage makes it an error); every other outcome (error code, failed write, failed read, signal) returns false; io_write is always given the output buffer from its start with exactly the produced amount; in test mode nothing is written
assume: lzma_code/io_read/io_write/io_fix_src_pos/message_xxx, hardware_threads_is_mt are stubs; --block-list is not in use (opt_block_list == NULL)
*/
/*@obligation
id: C17.coder_normal.6
props: C17 C18
entry: h_coder_normal
flags: xz
kind: bounded
bound: histories of at most 6 lzma_code() calls per file (each call, read and write with arbitrary results); the loop body does not depend on the iteration number
defs: -DCN_MAXCALLS=6
tier: thorough
unwind: 8
nondet_volatile: user_abort
fn: coder_normal coder_write_output
sentinels: 5
expect: 20
replay: none
timeout: 6000
desc: coder_normal with liblzma and all I/O replaced by nondeterministic stubs (lzma_code may return ANY code and consume/produce any amounts, io_read may fail or hit EOF at any call, io_write may fail at any call, a signal may arrive at any check of user_abort): it returns true (the ONLY thing that lets io_close remove the source) only if the last lzma_code call returned LZMA_STREAM_END, no read or write failed, every byte lzma_code produced was handed to a successful io_write before returning (ghost byte accounting; nothing is left in the output buffer), and -- unless trailing input is allowed (single-stream/lzip-style modes) -- the input was at EOF with nothing left over (trailing garbage makes it an error); every other outcome (error code, failed write, failed read, signal) returns false; io_write is always given the output buffer from its start with exactly the produced amount; in test mode nothing is written
assume: lzma_code/io_read/io_write/io_fix_src_pos/message_xxx, hardware_threads_is_mt are stubs; --block-list is not in use (opt_block_list == NULL)
*/
/*@obligation
id: C17.coder_passthru
props: C17
entry: h_coder_passthru
flags: xz
kind: bounded
bound: at most 4 read/write rounds
defs: -DCN_MAXCALLS=4 -DCN_PASSTHRU
unwind: 8
nondet_volatile: user_abort
fn: coder_passthru
sentinels: 2
expect: 5
replay: none
desc: coder_passthru (xz -dfc on non-compressed input): true only if every io_write succeeded, no io_read failed, no signal was seen, and the bytes written equal the bytes read (ghost accounting), ending at a read that returned 0
assume: io_read/io_write/message_progress_update are stubs
*/
/*@obligation
id: C17.coder_run
props: C17 C18 C19
entry: h_coder_run
flags: xz
defs: -DCN_MAXCALLS=3
kind: bounded
bound: at most 3 lzma_code() calls per file (incl. the decoder's header probe in coder_init)
timeout: 1200
unwind: 10
nondet_volatile: user_abort
fn: coder_run
sentinels: 4
expect: 5
replay: none
desc: coder_run through the real coder_init and coder_normal/coder_passthru with liblzma and file_io stubbed: every opened file pair is closed exactly once; io_close(pair, true) -- the call that removes the source -- happens only if the liblzma initialiser succeeded, the target was opened (except in test mode), no read or write failed, every produced byte was written, and the coder ended with LZMA_STREAM_END (or the pass-through copy completed); a failed first read, failed initialisation, a refused/failed io_open_dest or any coding failure reach io_close(pair, false); a refused source is not processed at all; test mode never opens a destination; the static coder state left by an EARLIER file of the same run (pending input in strm, allow_trailing_input) is arbitrary and must not leak: the coder consumes only bytes read from this file, and trailing garbage after a .xz/.lzma/raw stream is never a success
assume: io_open_src/io_open_dest/io_close/io_read/io_write, the liblzma initialisers and lzma_code, message_xxx are stubs with nondeterministic results
*/

/*@obligation
id: C09.xz.settings.chains
props: C09
entry: h_settings2
flags: xz
kind: bounded
bound: two filter chains selected through --block-list (--filters1, --filters2), single-threaded, each dictionary below 5 MiB with arbitrary low bits; estimates arbitrary per call and per chain
unwind: 12
fn: coder_set_compression_settings get_chains_memusage memlimit_too_small
sentinels: 3
expect: 20
replay: none
timeout: 1200
desc: the per-chain part of xz's memory adjustment: with two filter chains in use, on normal return EVERY chain's last estimate is <= the limit and was computed for the dictionary size that chain is left with -- a chain that already fits must not stop the others from being adjusted; dictionaries are only lowered (to a positive multiple of 1 MiB) and only with auto-adjust; otherwise the function ends in an error exit
assume: as C09.xz.settings; the estimator stub tells the chains apart by the filter array it is given
*/
/*@obligation
id: C09.xz.settings
props: C09
entry: h_settings
flags: xz
kind: bounded
bound: one filter chain (optional BCJ filter + LZMA1/LZMA2), at most 4 threads, dictionary size below 9 MiB with arbitrary low bits (the adjustment loops are completely unwound for these), memory estimates arbitrary per call
unwind: 12
fn: coder_set_compression_settings get_chains_memusage memlimit_too_small
sentinels: 6
expect: 20
replay: none
timeout: 1200
desc: xz's pre-flight memory adjustment with liblzma's estimators replaced by stubs that may return ANY value at every call (recorded with the configuration they were asked about): when coder_set_compression_settings returns normally, the LAST estimate it obtained is for exactly the configuration it leaves behind (thread count / single- or multi-threaded mode / dictionary size) and that estimate is <= the memory limit in force -- the only exception being the documented one: multi-threaded compression with the AUTOMATIC (not user-specified) limit continues with one worker thread even if still above it; otherwise it ends in an error (memlimit_too_small / message_fatal); settings are only ever lowered (threads <= requested, dictionary <= requested, never below 1 MiB when reduced, still a multiple of 1 MiB when reduced); without --no-adjust... i.e. with opt_auto_adjust == false neither the dictionary size is touched nor multi-threaded mode dropped; raw format never adjusts
assume: lzma_raw_encoder_memusage/lzma_raw_decoder_memusage/lzma_stream_encoder_mt_memusage/lzma_mt_block_size/lzma_lzma_preset/hardware_xxx are stubs; the relation between the estimates and real allocation is the liblzma side of C09 (other obligations)
*/
/*@obligation
id: C09.xz.settings.wide
props: C09
entry: h_settings
flags: xz
defs: -DST_THREADS=8 -DST_DICT_MIB=17
tier: thorough
kind: bounded
bound: one filter chain (optional BCJ filter + LZMA1/LZMA2), at most 8 threads, dictionary size below 17 MiB with arbitrary low bits (the adjustment loops are completely unwound for these), memory estimates arbitrary per call
unwind: 22
fn: coder_set_compression_settings get_chains_memusage memlimit_too_small
sentinels: 6
expect: 20
replay: none
timeout: 3000
desc: xz's pre-flight memory adjustment with liblzma's estimators replaced by stubs that may return ANY value at every call (recorded with the configuration they were asked about): when coder_set_compression_settings returns normally, the LAST estimate it obtained is for exactly the configuration it leaves behind (thread count / single- or multi-threaded mode / dictionary size) and that estimate is <= the memory limit in force -- the only exception being the documented one: multi-threaded compression with the AUTOMATIC (not user-specified) limit continues with one worker thread even if still above it; otherwise it ends in an error (memlimit_too_small / message_fatal); settings are only ever lowered (threads <= requested, dictionary <= requested, never below 1 MiB when reduced, still a multiple of 1 MiB when reduced); without --no-adjust... i.e. with opt_auto_adjust == false neither the dictionary size is touched nor multi-threaded mode dropped; raw format never adjusts
assume: lzma_raw_encoder_memusage/lzma_raw_decoder_memusage/lzma_stream_encoder_mt_memusage/lzma_mt_block_size/lzma_lzma_preset/hardware_xxx are stubs; the relation between the estimates and real allocation is the liblzma side of C09 (other obligations)
*/
#include "verif.h"
#include "coder.c"

struct in {
	uint8_t src_eof, trailing, test_mode, compress, format_xz, mt, flush_needed;
	uint64_t block_size;
	size_t avail_in;
	/* per call scripts */
	uint32_t ret[6]; size_t use_in[6], make_out[6];
	size_t rd[6]; uint8_t rd_eof[6], rd_fail[6], wr_fail[6];
	uint8_t open_src_fail, open_dest_fail, coder_result, props_fail, force, to_stdout, format; uint32_t init_ret, props_dict;
	/* settings */
	uint64_t limit, limit_mt, est[32], mt_block; uint32_t threads, dict_size, dict2[3]; uint8_t mt_default, auto_adjust, bcj, lzma1, use_preset;
};
static struct in IN VERIF_IN_INIT;

static struct {
	unsigned code_calls, reads, writes, closes, open_dests, coder_calls, inits, ests, threads_set;
	uint64_t last_est; bool last_mt; uint32_t last_threads, last_dict;
	uint32_t last_ret; lzma_action last_action;
	uint64_t produced, written, read_total, consumed;
	bool read_failed, write_failed, close_success, write_bad_args;
	size_t fix_src;
} G;

#ifndef CN_MAXCALLS
#define CN_MAXCALLS 4
#endif
#define EST_MAX 32
#ifndef ST_THREADS
#define ST_THREADS 4
#define ST_DICT_MIB 9
#endif

/* ---- liblzma ---- */
lzma_ret lzma_code(lzma_stream *s, lzma_action action)
{
	const unsigned k = G.code_calls++;
	__CPROVER_assume(k < CN_MAXCALLS);
	ASSERT(s == &strm, "lzma_code on the coder's stream");
	const size_t ui = IN.use_in[k], mo = IN.make_out[k];
	__CPROVER_assume(ui <= s->avail_in && mo <= s->avail_out);
	s->avail_in -= ui; if (ui > 0) s->next_in += ui;
	s->avail_out -= mo; if (mo > 0) s->next_out += mo;
	G.produced += mo; G.consumed += ui;
	/* liblzma contract (api/lzma/base.h): LZMA_UNSUPPORTED_CHECK/LZMA_NO_CHECK/LZMA_GET_CHECK come from decoders only */
	__CPROVER_assume(!IN.compress || (IN.ret[k] != LZMA_UNSUPPORTED_CHECK && IN.ret[k] != LZMA_NO_CHECK && IN.ret[k] != LZMA_GET_CHECK));
	G.last_ret = IN.ret[k]; G.last_action = action;
	return (lzma_ret)IN.ret[k];
}
uint64_t lzma_memusage(const lzma_stream *s) { (void)s; return 0; }
static lzma_ret init_stub(void) { ++G.inits; return (lzma_ret)IN.init_ret; }
lzma_ret lzma_stream_encoder_mt(lzma_stream *s, const lzma_mt *o) { (void)s; (void)o; return init_stub(); }
lzma_ret lzma_stream_encoder(lzma_stream *s, const lzma_filter *f, lzma_check c) { (void)s; (void)f; (void)c; return init_stub(); }
lzma_ret lzma_alone_encoder(lzma_stream *s, const lzma_options_lzma *o) { (void)s; (void)o; return init_stub(); }
lzma_ret lzma_raw_encoder(lzma_stream *s, const lzma_filter *f) { (void)s; (void)f; return init_stub(); }
lzma_ret lzma_stream_decoder_mt(lzma_stream *s, const lzma_mt *o) { (void)s; (void)o; return init_stub(); }
lzma_ret lzma_stream_decoder(lzma_stream *s, uint64_t m, uint32_t fl) { (void)s; (void)m; (void)fl; return init_stub(); }
lzma_ret lzma_alone_decoder(lzma_stream *s, uint64_t m) { (void)s; (void)m; return init_stub(); }
lzma_ret lzma_lzip_decoder(lzma_stream *s, uint64_t m, uint32_t fl) { (void)s; (void)m; (void)fl; return init_stub(); }
lzma_ret lzma_raw_decoder(lzma_stream *s, const lzma_filter *f) { (void)s; (void)f; return init_stub(); }
static lzma_options_lzma PROPS_OPT;
lzma_ret lzma_properties_decode(lzma_filter *f, const lzma_allocator *a, const uint8_t *p, size_t n)
{ (void)a; (void)p; (void)n; if (IN.props_fail) return LZMA_OPTIONS_ERROR; PROPS_OPT.dict_size = IN.props_dict; f->options = &PROPS_OPT; return LZMA_OK; }
void free(void *p) { (void)p; }

/* ---- file_io ---- */
size_t io_read(file_pair *pair, io_buf *buf, size_t size)
{
	const unsigned k = G.reads++;
	__CPROVER_assume(k < 6);
	ASSERT(buf == &in_buf && size <= IO_BUFFER_SIZE, "io_read into the input buffer, at most its size");
	if (IN.rd_fail[k]) { G.read_failed = true; return SIZE_MAX; }
	size_t n = IN.rd[k];
	__CPROVER_assume(n <= size);
	if (n < size || IN.rd_eof[k]) pair->src_eof = true;
	G.read_total += n;
	return n;
}
bool io_write(file_pair *pair, const io_buf *buf, size_t size)
{
	(void)pair;
	const unsigned k = G.writes++;
	__CPROVER_assume(k < 6);
#ifdef CN_PASSTHRU
	if (buf != &in_buf) G.write_bad_args = true;
#else
	if (buf != &out_buf || size != IO_BUFFER_SIZE - strm.avail_out) G.write_bad_args = true;
#endif
	if (IN.wr_fail[k]) { G.write_failed = true; return true; }
	G.written += size;
	return false;
}
void io_fix_src_pos(file_pair *pair, size_t rewind_size) { (void)pair; G.fix_src = rewind_size; }
static file_pair PAIR;
static char NAME[] = "f";
file_pair *io_open_src(const char *name) { (void)name; if (IN.open_src_fail) return NULL; PAIR.src_name = NAME; PAIR.src_eof = IN.src_eof; return &PAIR; }
bool io_open_dest(file_pair *pair) { (void)pair; ++G.open_dests; return IN.open_dest_fail; }
void io_close(file_pair *pair, bool success) { ASSERT(pair == &PAIR, "closing the opened pair"); ++G.closes; G.close_success = success; }

/* ---- the rest of xz ---- */
volatile sig_atomic_t user_abort;
enum operation_mode opt_mode; enum format_type opt_format;
bool opt_robot, opt_ignore_check, opt_keep_original, opt_force, opt_stdout;
void message_warning(const char *fmt, ...) { (void)fmt; }
void message_error(const char *fmt, ...) { (void)fmt; }
void message_fatal(const char *fmt, ...) { (void)fmt; __CPROVER_assume(0); }
void message_bug(void) { __CPROVER_assert(0, "message_bug() reached"); __CPROVER_assume(0); }
void message(enum message_verbosity v, const char *fmt, ...) { (void)v; (void)fmt; }
const char *message_strm(lzma_ret r) { (void)r; return "x"; }
void message_mem_needed(enum message_verbosity v, uint64_t m) { (void)v; (void)m; }
void message_progress_update(void) {}
void message_progress_start(lzma_stream *s, bool p, uint64_t n) { (void)s; (void)p; (void)n; }
void message_progress_end(bool s) { (void)s; }
void message_filename(const char *s) { (void)s; }
void message_filters_show(enum message_verbosity v, const lzma_filter *f) { (void)v; (void)f; }
void message_set_files(unsigned n) { (void)n; }
enum message_verbosity message_verbosity_get(void) { return V_WARNING; }
const char *tuklib_mask_nonprint(const char *s) { return s; }
static bool g_mt, g_settings_mode;
bool hardware_threads_is_mt(void) { return g_mt; }
void hardware_threads_set(uint32_t n) { g_mt = n > 1; ++G.threads_set; }
uint32_t hardware_threads_get(void) { return g_settings_mode ? IN.threads : 1; }
uint64_t hardware_memlimit_get(enum operation_mode m) { (void)m; return g_settings_mode ? IN.limit : UINT64_MAX; }
uint64_t hardware_memlimit_mtenc_get(void) { return g_settings_mode ? IN.limit_mt : UINT64_MAX; }
uint64_t hardware_memlimit_mtdec_get(void) { return UINT64_MAX; }
bool hardware_memlimit_mtenc_is_default(void) { return g_settings_mode ? IN.mt_default : true; }
/* estimators: any value at every call; the configuration asked about is recorded */
static lzma_options_lzma SOPT;
static uint64_t est_stub(bool mt, uint32_t threads)
{
	const unsigned k = G.ests++;
	__CPROVER_assume(k < EST_MAX);
	/* unsupported options (UINT64_MAX) do not depend on the thread count or dictionary size being lowered */
	__CPROVER_assume(k == 0 || IN.est[k] != UINT64_MAX);
	const lzma_options_lzma *o = chains[0][IN.bcj ? 1 : 0].options;
	G.last_est = IN.est[k]; G.last_mt = mt; G.last_threads = threads; G.last_dict = o->dict_size;
	return IN.est[k];
}
static lzma_options_lzma SOPT2[3];
static bool g_two_chains;
static struct { uint64_t last_est[3]; uint32_t last_dict[3]; unsigned n[3]; } G2;
static uint64_t est_stub2(const lzma_filter *f)
{
	const unsigned k = G.ests++;
	__CPROVER_assume(k < EST_MAX);
	__CPROVER_assume(IN.est[k] != UINT64_MAX);
	const unsigned c = f == chains[1] ? 1 : 2;
	ASSERT(f == chains[1] || f == chains[2], "estimates are asked for the chains in use only");
	G2.last_est[c] = IN.est[k]; G2.last_dict[c] = SOPT2[c].dict_size; ++G2.n[c];
	return IN.est[k];
}
uint64_t lzma_raw_encoder_memusage(const lzma_filter *f) { if (g_two_chains) return est_stub2(f); return est_stub(false, 1); }
uint64_t lzma_raw_decoder_memusage(const lzma_filter *f) { (void)f; return est_stub(false, 1); }
uint64_t lzma_stream_encoder_mt_memusage(const lzma_mt *o) { return est_stub(true, o->threads); }
uint64_t lzma_mt_block_size(const lzma_filter *f) { (void)f; return IN.mt_block; }
lzma_bool lzma_lzma_preset(lzma_options_lzma *o, uint32_t preset) { (void)preset; o->dict_size = IN.dict_size; return false; }
lzma_bool lzma_check_is_supported(lzma_check c) { (void)c; return true; }
void tuklib_exit(int status, int err_status, int show_error) { (void)status; (void)err_status; (void)show_error; __CPROVER_assume(0); }
uint64_t opt_flush_timeout;
void mytime_set_start_time(void) {}
uint32_t mytime_get_flush_timeout_dummy;
void *xrealloc(void *p, size_t s) { (void)p; (void)s; return NULL; }
const char *uint64_to_str(uint64_t v, uint32_t slot) { (void)v; (void)slot; return "0"; }
uint64_t round_up_to_mib(uint64_t v) { return v; }
void set_exit_status(enum exit_status_type s) { (void)s; }

static bool wf(void)
{
	for (int k = 0; k < 6; ++k)
		if (IN.rd_eof[k] > 1 || IN.rd_fail[k] > 1 || IN.wr_fail[k] > 1 || IN.ret[k] > LZMA_RET_INTERNAL8) return false;
	return IN.src_eof <= 1 && IN.trailing <= 1 && IN.test_mode <= 1 && IN.compress <= 1 && IN.format_xz <= 1 && IN.mt <= 1 && IN.flush_needed <= 1
		&& IN.avail_in <= IO_BUFFER_SIZE && IN.props_fail <= 1 && IN.force <= 1 && IN.to_stdout <= 1 && IN.init_ret <= LZMA_RET_INTERNAL8 && IN.open_src_fail <= 1 && IN.open_dest_fail <= 1 && IN.coder_result <= 1
		/* block splitting by size is single-threaded only (coder_set_compression_settings) */
		&& (IN.block_size == 0 || !IN.mt || !IN.compress);
}

static void setup(void)
{
	memset(&G, 0, sizeof(G)); g_mt = IN.mt; g_settings_mode = false; memset(&PAIR, 0, sizeof(PAIR));
	PAIR.src_name = NAME; PAIR.src_eof = IN.src_eof; PAIR.flush_needed = IN.flush_needed;
	opt_mode = IN.test_mode ? MODE_TEST : (IN.compress ? MODE_COMPRESS : MODE_DECOMPRESS);
	opt_format = IN.format_xz ? FORMAT_XZ : FORMAT_LZMA;
	opt_block_size = IN.block_size; opt_block_list = NULL;
	allow_trailing_input = IN.trailing;
	const lzma_stream init = LZMA_STREAM_INIT; strm = init;
	strm.next_in = in_buf.u8; strm.avail_in = IN.avail_in;
}

void h_coder_normal(void)
{
	HAVOC(IN, struct in);
	ASSUME(wf());
	ASSUME(!(IN.test_mode && IN.compress));
	/* at EOF nothing is buffered beyond what was read; compression starts with an empty input buffer */
	ASSUME(!IN.compress || IN.avail_in == 0);
	setup();
	const bool success = coder_normal(&PAIR);
	if (success) {
		ASSERT(G.code_calls >= 1 && G.last_ret == LZMA_STREAM_END, "success only after lzma_code reported LZMA_STREAM_END");
		ASSERT(!G.read_failed && !G.write_failed, "success only if no read and no write failed");
		if (!IN.test_mode) ASSERT(G.written == G.produced && strm.avail_out == IO_BUFFER_SIZE, "success only after every produced byte went through a successful io_write (output buffer empty)");
		if (!IN.trailing) ASSERT(strm.avail_in == 0 && PAIR.src_eof, "success only at the end of the input: nothing unread, no trailing garbage");
		REACH(cn_success);
		REACH_IF(G.writes >= 2, cn_success_two_writes);
	}
	{
		ASSERT(G.consumed <= IN.avail_in + G.read_total, "the coder is only fed bytes that were read");
	}
	ASSERT(!G.write_bad_args, "io_write always gets the output buffer from its start with exactly the produced amount");
	if (IN.test_mode) ASSERT(G.writes == 0, "test mode writes nothing");
	if (G.write_failed || G.read_failed) { ASSERT(!success, "a failed read or write is never a success"); REACH(cn_io_failed); }
	if (G.code_calls >= 1 && G.last_ret != LZMA_STREAM_END) { ASSERT(!success, "anything but LZMA_STREAM_END from the last lzma_code call is not a success"); }
	REACH_IF(!success && G.code_calls >= 1 && G.last_ret == LZMA_STREAM_END && !G.write_failed && !G.read_failed && !IN.trailing && strm.avail_in != 0, cn_trailing_garbage);
	REACH_IF(!success && G.code_calls >= 2 && G.last_ret == LZMA_DATA_ERROR, cn_data_error);
}

void h_coder_passthru(void)
{
	HAVOC(IN, struct in);
	ASSUME(wf());
	setup();
	const uint64_t first = IN.avail_in;
	const bool success = coder_passthru(&PAIR);
	if (success) {
		ASSERT(!G.write_failed && !G.read_failed && !G.write_bad_args, "success only if nothing failed");
		ASSERT(G.written == first + G.read_total && strm.avail_in == 0, "everything read was written");
		REACH(pt_success);
	}
	if (G.write_failed || G.read_failed) { ASSERT(!success, "a failed read or write is never a success"); REACH(pt_failed); }
}

void h_coder_run(void)
{
	HAVOC(IN, struct in);
	ASSUME(wf());
	ASSUME(!(IN.test_mode && IN.compress));
	ASSUME(IN.format <= FORMAT_RAW && !(IN.compress && (IN.format == FORMAT_AUTO || IN.format == FORMAT_LZIP)));
	setup();
	opt_format = (enum format_type)IN.format; opt_force = IN.force; opt_stdout = IN.to_stdout; opt_single_stream = false;
	/* strm, in_buf and allow_trailing_input are static: they hold whatever the PREVIOUS file of the same invocation left behind
	 * (setup() gave strm.avail_in and allow_trailing_input arbitrary values) */
	coder_run(NAME);
	ASSERT(G.consumed <= G.read_total, "the coder is only ever fed bytes read from THIS file (nothing left over from an earlier file)");
	if (IN.open_src_fail) { ASSERT(G.closes == 0 && G.code_calls == 0 && G.reads == 0 && G.open_dests == 0, "a refused source is not processed at all"); REACH(cr_refused); return; }
	ASSERT(G.closes == 1, "the pair is closed exactly once");
	const bool passthru = G.inits == 0 && !IN.compress;
	if (G.close_success) {
		ASSERT(!G.read_failed && !G.write_failed, "io_close(success) never after a failed read or write");
		ASSERT(IN.test_mode ? G.open_dests == 0 : (G.open_dests == 1 && !IN.open_dest_fail), "destination opened (except in test mode) before coding");
		if (!passthru) {
			ASSERT(G.inits == 1 && IN.init_ret == LZMA_OK, "io_close(success) only after a successful initialisation");
			ASSERT(G.code_calls >= 1 && G.last_ret == LZMA_STREAM_END, "io_close(success) only after LZMA_STREAM_END");
			if (!IN.test_mode) ASSERT(G.written == G.produced, "io_close(success) only after every produced byte was written");
			/* trailing input is acceptable only for lzip members (recognised by coder_init for FORMAT_LZIP / FORMAT_AUTO); --single-stream is off here */
			if (!IN.compress && IN.format != FORMAT_LZIP && IN.format != FORMAT_AUTO)
				ASSERT(strm.avail_in == 0 && PAIR.src_eof, "io_close(success) only if the whole input was consumed: trailing garbage is an error, whatever an earlier file allowed");
			REACH(cr_success);
		} else {
			ASSERT(IN.force && IN.to_stdout && !IN.test_mode, "pass-through only for xz -dfc (decompress, force, stdout) with unrecognised input");
			ASSERT(G.written == G.read_total, "pass-through copied everything it read");
			REACH(cr_passthru_success);
		}
	}
	if (G.inits == 1 && IN.init_ret != LZMA_OK) { ASSERT(!G.close_success && G.open_dests == 0 && G.writes == 0, "failed initialisation: nothing opened or written, closed as failure"); REACH(cr_init_failed); }
	if (G.read_failed || G.write_failed || (G.open_dests == 1 && IN.open_dest_fail)) { ASSERT(!G.close_success, "failed read, write or open of the target: closed as failure"); REACH(cr_io_failure); }
	if (G.open_dests == 1 && IN.open_dest_fail) ASSERT(G.writes == 0, "nothing is written when the target could not be opened");
	if (IN.test_mode) ASSERT(G.open_dests == 0 && G.writes == 0, "test mode never opens a destination nor writes");
}


/* ---------------- coder_set_compression_settings ---------------- */
void h_settings(void)
{
	HAVOC(IN, struct in);
	ASSUME(wf());
	ASSUME(IN.mt_default <= 1 && IN.auto_adjust <= 1 && IN.bcj <= 1 && IN.lzma1 <= 1 && IN.use_preset <= 1);
	ASSUME(IN.threads >= 1 && IN.threads <= ST_THREADS && IN.dict_size >= 4096 && IN.dict_size < ((uint32_t)ST_DICT_MIB << 20));
	ASSUME(IN.format == FORMAT_XZ || IN.format == FORMAT_LZMA || IN.format == FORMAT_RAW);
	/* main(): the function is called when compressing, or for raw decoding; .lzma has exactly one LZMA1 filter, .xz never LZMA1 */
	ASSUME(IN.compress || IN.format == FORMAT_RAW);
	ASSUME(IN.format != FORMAT_LZMA || (IN.lzma1 && !IN.bcj));
	ASSUME(IN.format != FORMAT_XZ || !IN.lzma1);
	setup(); g_settings_mode = true;
	g_mt = IN.threads > 1;
	opt_mode = IN.compress ? MODE_COMPRESS : MODE_DECOMPRESS;
	opt_format = (enum format_type)IN.format; opt_auto_adjust = IN.auto_adjust; opt_flush_timeout = 0; opt_block_list = NULL; block_list_largest = 0;
	chains_used_mask = 1; check_default = true;
	SOPT.dict_size = IN.dict_size;
	unsigned n = 0;
	if (IN.use_preset && !IN.bcj) { filters_count = 0; }
	else {
		if (IN.bcj) { chains[0][n].id = LZMA_FILTER_X86; chains[0][n].options = NULL; ++n; }
		chains[0][n].id = IN.lzma1 ? LZMA_FILTER_LZMA1 : LZMA_FILTER_LZMA2; chains[0][n].options = &SOPT; ++n;
		chains[0][n].id = LZMA_VLI_UNKNOWN; filters_count = n;
	}
	const unsigned li = IN.bcj ? 1 : 0;

	coder_set_compression_settings();

	/* normal return */
	const lzma_options_lzma *fo = chains[0][li].options;
	ASSERT(fo != NULL && (chains[0][li].id == LZMA_FILTER_LZMA1 || chains[0][li].id == LZMA_FILTER_LZMA2), "the chain still ends in the LZMA filter");
	const bool was_mt = IN.compress && IN.format == FORMAT_XZ && IN.threads > 1;
	const uint64_t limit = was_mt ? IN.limit_mt : IN.limit;
	const bool now_mt = g_mt && IN.compress && IN.format == FORMAT_XZ;   /* threads only matter for .xz compression */
	const uint32_t now_threads = now_mt ? mt_options.threads : 1;
	ASSERT(G.ests >= 1, "an estimate was obtained");
	/* the documented escape: automatic limit, multi-threaded mode kept with one worker */
	const bool escape = was_mt && IN.mt_default && now_mt && now_threads == 1 && G.last_est > limit;
	if (!escape) {
		ASSERT(G.last_est <= limit, "on normal return the last estimate is within the memory limit in force");
		REACH(st_within);
	} else REACH(st_default_limit_escape);
	/* verbose mode asks for a decoder estimate too, but only at V_DEBUG; the stub reports V_WARNING, so the last estimate is the encoder's */
	ASSERT(G.last_dict == fo->dict_size && G.last_mt == now_mt && (!now_mt || G.last_threads == now_threads), "that estimate was computed for exactly the configuration left behind");
	ASSERT(now_threads <= IN.threads && fo->dict_size <= IN.dict_size, "settings are only ever lowered");
	if (fo->dict_size != IN.dict_size) {
		ASSERT(IN.auto_adjust && IN.compress && IN.format != FORMAT_RAW, "the dictionary is reduced only when compressing with auto-adjust, never in raw mode");
		ASSERT(fo->dict_size >= (UINT32_C(1) << 20) && (fo->dict_size & ((UINT32_C(1) << 20) - 1)) == 0, "a reduced dictionary is a positive multiple of 1 MiB");
		ASSERT(!now_mt, "the dictionary is only reduced in single-threaded mode");
		REACH(st_dict_reduced);
	}
	if (was_mt && !now_mt) { ASSERT(IN.auto_adjust && !IN.mt_default, "multi-threaded mode is dropped only with auto-adjust and a user-specified limit"); REACH(st_mt_dropped); }
	REACH_IF(was_mt && now_mt && now_threads < IN.threads && now_threads > 1, st_threads_reduced);
	REACH_IF(!IN.compress, st_raw_decode);
}


/* two chains through --block-list, single-threaded */
static block_list_entry BL[2];
void h_settings2(void)
{
	HAVOC(IN, struct in);
	ASSUME(IN.auto_adjust <= 1);
	for (unsigned c = 1; c <= 2; ++c) ASSUME(IN.dict2[c] >= 4096 && IN.dict2[c] < (5u << 20));
	setup(); g_settings_mode = true; g_two_chains = true; memset(&G2, 0, sizeof(G2));
	IN.threads = 1; g_mt = false;
	opt_mode = MODE_COMPRESS; opt_format = FORMAT_XZ; opt_auto_adjust = IN.auto_adjust; opt_flush_timeout = 0;
	BL[0].size = 65536; BL[0].chain_num = 1; BL[1].size = 0; BL[1].chain_num = 2;
	opt_block_list = BL; block_list_largest = 65536; block_list_chain_mask = 6; chains_used_mask = 6; check_default = true;
	filters_count = 0;
	for (unsigned c = 1; c <= 2; ++c) {
		SOPT2[c].dict_size = IN.dict2[c];
		chains[c][0].id = LZMA_FILTER_LZMA2; chains[c][0].options = &SOPT2[c]; chains[c][1].id = LZMA_VLI_UNKNOWN;
	}
	coder_set_compression_settings();
	for (unsigned c = 1; c <= 2; ++c) {
		ASSERT(G2.n[c] >= 1 && G2.last_est[c] <= IN.limit, "on normal return EVERY chain's last estimate is within the memory limit");
		ASSERT(G2.last_dict[c] == SOPT2[c].dict_size, "and was computed for the dictionary size the chain is left with");
		ASSERT(SOPT2[c].dict_size <= IN.dict2[c], "dictionaries are only lowered");
		if (SOPT2[c].dict_size != IN.dict2[c])
			ASSERT(IN.auto_adjust && SOPT2[c].dict_size >= (1u << 20) && (SOPT2[c].dict_size & ((1u << 20) - 1)) == 0, "reduced only with auto-adjust, to a positive multiple of 1 MiB");
	}
	REACH(st2_return);
	REACH_IF(SOPT2[2].dict_size != IN.dict2[2] && SOPT2[1].dict_size == IN.dict2[1], st2_second_only_reduced);
	REACH_IF(SOPT2[1].dict_size != IN.dict2[1] && SOPT2[2].dict_size != IN.dict2[2], st2_both_reduced);
}
