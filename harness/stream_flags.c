/* Stream Header / Stream Footer encode+decode (C02, C03, C04, C05). */

/*@obligation
id: C03.sflags.header_decode
props: C03 C04 C05
entry: h_sh_dec
enforce: w_sh_dec
replace: lzma_crc32
unwind: 9
fn: lzma_stream_header_decode lzma_crc32
sentinels: 4
expect: 10
desc: lzma_stream_header_decode(in)==OK iff the spec parser accepts the 12 bytes (magic, CRC32 of the flags computed bit-at-a-time, reserved bits zero); else FORMAT/DATA/OPTIONS error in that precedence; on OK version=0, check=in[7]&15, backward_size=LZMA_VLI_UNKNOWN
*/
/*@obligation
id: C03.sflags.footer_decode
props: C03 C04 C05
entry: h_sf_dec
enforce: w_sf_dec
replace: lzma_crc32
unwind: 9
fn: lzma_stream_footer_decode lzma_crc32
sentinels: 4
expect: 10
desc: lzma_stream_footer_decode(in)==OK iff the spec parser accepts (magic YZ, CRC32 over backward size+flags, reserved bits zero); on OK backward_size=(stored+1)*4 and check as stored
*/
/*@obligation
id: C02.sflags.header_encode
props: C02 C04 C06
entry: h_sh_enc
enforce: w_sh_enc
replace: lzma_crc32
unwind: 9
fn: lzma_stream_header_encode lzma_crc32
sentinels: 3
expect: 10
desc: lzma_stream_header_encode: version!=0 gives OPTIONS_ERROR, check>15 gives PROG_ERROR; otherwise the 12 bytes written are accepted by the spec parser with the same check id (bytes are a function of the options only)
*/
/*@obligation
id: C02.sflags.footer_encode
props: C02 C04 C06
entry: h_sf_enc
enforce: w_sf_enc
replace: lzma_crc32
unwind: 9
fn: lzma_stream_footer_encode lzma_crc32
sentinels: 3
expect: 10
desc: lzma_stream_footer_encode: rejects version!=0, backward_size not in {4..2^34 step 4}, check>15; otherwise the 12 bytes parse (spec) to the same check and backward size
*/
/*@obligation
id: C05.flip.stream_header
props: C05 C03
entry: h_sh_flip
replace: lzma_crc32
solver: cadical
unwind: 9
fn: lzma_stream_header_decode
sentinels: 1
expect: 5
desc: for EVERY 12-byte buffer accepted by lzma_stream_header_decode and EVERY bit k<96, the buffer with bit k flipped is rejected
*/
/*@obligation
id: C05.flip.stream_footer
props: C05 C03
entry: h_sf_flip
replace: lzma_crc32
solver: cadical
unwind: 9
fn: lzma_stream_footer_decode
sentinels: 1
expect: 5
timeout: 300
desc: for EVERY 12-byte buffer accepted by lzma_stream_footer_decode and EVERY bit k<96, the flipped buffer is rejected or (never happens) decodes to different flags -- it is never accepted with the same meaning
*/
/*@obligation
id: C03.sflags.compare
props: C03 C05
entry: h_sflags_compare
enforce: w_sflags_compare
fn: lzma_stream_flags_compare
sentinels: 4
expect: 5
desc: lzma_stream_flags_compare: OK iff both version 0, checks equal and <=15, and backward sizes equal when both known (each valid); DATA_ERROR exactly when check or known backward sizes differ
*/

#include "verif.h"
#include "spec_xz.h"
#include "liblzma/common/common.h"
#include "contract_crc.h" /* lzma_crc32 is used through its contract (enforced in harness/crc.c) */
#include "liblzma/common/stream_flags_common.c"
#include "liblzma/common/stream_flags_encoder.c"
#include "liblzma/common/stream_flags_decoder.c"

struct in {
	uint8_t buf[12];
	uint32_t version, check;
	uint64_t backward_size;
	uint32_t version2, check2;
	uint64_t backward_size2;
	uint32_t k;
	uint32_t garbage;
};
static struct in IN VERIF_IN_INIT;

struct out {
	lzma_stream_flags f;
	uint8_t buf[12];
};
static struct out OUT;

/* ---- header decode ---- */
static bool post_sh_dec(lzma_ret r)
{
	uint32_t chk = 0;
	const int s = spec_stream_header_parse(IN.buf, &chk);
	switch (s) {
	case SPEC_FORMAT: return r == LZMA_FORMAT_ERROR;
	case SPEC_DATA: return r == LZMA_DATA_ERROR;
	case SPEC_OPTIONS: return r == LZMA_OPTIONS_ERROR;
	default:
		return r == LZMA_OK && OUT.f.version == 0 && (uint32_t)OUT.f.check == chk
			&& OUT.f.backward_size == LZMA_VLI_UNKNOWN;
	}
}

lzma_ret w_sh_dec(void)
ENSURES(post_sh_dec(RET))
ASSIGNS(OUT)
{
	OUT.f.version = IN.garbage; OUT.f.check = (lzma_check)IN.garbage; OUT.f.backward_size = IN.garbage;
	return lzma_stream_header_decode(&OUT.f, IN.buf);
}

void h_sh_dec(void)
{
	HAVOC(IN, struct in);
	lzma_ret r = w_sh_dec();
	NATIVE_ASSERT(post_sh_dec(r), "stream header decode == spec parse");
	REACH_IF(r == LZMA_OK, shd_ok);
	REACH_IF(r == LZMA_FORMAT_ERROR, shd_format);
	REACH_IF(r == LZMA_DATA_ERROR, shd_data);
	REACH_IF(r == LZMA_OPTIONS_ERROR, shd_options);
}

/* ---- footer decode ---- */
static bool post_sf_dec(lzma_ret r)
{
	uint32_t chk = 0; uint64_t bs = 0;
	const int s = spec_stream_footer_parse(IN.buf, &chk, &bs);
	switch (s) {
	case SPEC_FORMAT: return r == LZMA_FORMAT_ERROR;
	case SPEC_DATA: return r == LZMA_DATA_ERROR;
	case SPEC_OPTIONS: return r == LZMA_OPTIONS_ERROR;
	default:
		return r == LZMA_OK && OUT.f.version == 0 && (uint32_t)OUT.f.check == chk
			&& OUT.f.backward_size == bs;
	}
}

lzma_ret w_sf_dec(void)
ENSURES(post_sf_dec(RET))
ASSIGNS(OUT)
{
	OUT.f.version = IN.garbage; OUT.f.check = (lzma_check)IN.garbage; OUT.f.backward_size = IN.garbage;
	return lzma_stream_footer_decode(&OUT.f, IN.buf);
}

void h_sf_dec(void)
{
	HAVOC(IN, struct in);
	lzma_ret r = w_sf_dec();
	NATIVE_ASSERT(post_sf_dec(r), "stream footer decode == spec parse");
	REACH_IF(r == LZMA_OK, sfd_ok);
	REACH_IF(r == LZMA_FORMAT_ERROR, sfd_format);
	REACH_IF(r == LZMA_DATA_ERROR, sfd_data);
	REACH_IF(r == LZMA_OPTIONS_ERROR, sfd_options);
}

/* ---- header encode ---- */
static void set_flags(lzma_stream_flags *f, uint32_t v, uint32_t c, uint64_t b)
{
	memset(f, 0, sizeof(*f));
	f->version = v; f->check = (lzma_check)c; f->backward_size = b;
}

static bool post_sh_enc(lzma_ret r)
{
	if (IN.version != 0)
		return r == LZMA_OPTIONS_ERROR;
	if (IN.check > 15)
		return r == LZMA_PROG_ERROR;
	uint32_t chk = 99;
	return r == LZMA_OK && spec_stream_header_parse(OUT.buf, &chk) == SPEC_OK && chk == IN.check;
}

lzma_ret w_sh_enc(void)
ENSURES(post_sh_enc(RET))
ASSIGNS(OUT)
{
	set_flags(&OUT.f, IN.version, IN.check, IN.backward_size);
	memcpy(OUT.buf, IN.buf, 12);
	return lzma_stream_header_encode(&OUT.f, OUT.buf);
}

void h_sh_enc(void)
{
	HAVOC(IN, struct in);
	lzma_ret r = w_sh_enc();
	NATIVE_ASSERT(post_sh_enc(r), "stream header encode produces what the spec parser accepts");
	REACH_IF(r == LZMA_OK, she_ok);
	REACH_IF(r == LZMA_OPTIONS_ERROR, she_opt);
	REACH_IF(r == LZMA_PROG_ERROR, she_prog);
}

/* ---- footer encode ---- */
static bool post_sf_enc(lzma_ret r)
{
	if (IN.version != 0)
		return r == LZMA_OPTIONS_ERROR;
	const bool bs_ok = IN.backward_size >= 4 && IN.backward_size <= (UINT64_C(1) << 34)
		&& (IN.backward_size & 3) == 0;
	if (!bs_ok || IN.check > 15)
		return r == LZMA_PROG_ERROR;
	uint32_t chk = 99; uint64_t bs = 0;
	return r == LZMA_OK && spec_stream_footer_parse(OUT.buf, &chk, &bs) == SPEC_OK
		&& chk == IN.check && bs == IN.backward_size;
}

lzma_ret w_sf_enc(void)
ENSURES(post_sf_enc(RET))
ASSIGNS(OUT)
{
	set_flags(&OUT.f, IN.version, IN.check, IN.backward_size);
	memcpy(OUT.buf, IN.buf, 12);
	return lzma_stream_footer_encode(&OUT.f, OUT.buf);
}

void h_sf_enc(void)
{
	HAVOC(IN, struct in);
	lzma_ret r = w_sf_enc();
	NATIVE_ASSERT(post_sf_enc(r), "stream footer encode produces what the spec parser accepts");
	REACH_IF(r == LZMA_OK && IN.backward_size == (UINT64_C(1) << 34), sfe_ok_max);
	REACH_IF(r == LZMA_OPTIONS_ERROR, sfe_opt);
	REACH_IF(r == LZMA_PROG_ERROR, sfe_prog);
}

/* ---- single bit flips ---- */
void h_sh_flip(void)
{
	HAVOC(IN, struct in);
	ASSUME(IN.k < 96);
	lzma_stream_flags a, b;
	set_flags(&a, 1, 1, 1); set_flags(&b, 1, 1, 1);
	lzma_ret r1 = lzma_stream_header_decode(&a, IN.buf);
	if (r1 != LZMA_OK)
		return;
	REACH(flip_h_accepted);
	uint8_t fl[12];
	memcpy(fl, IN.buf, 12);
	fl[IN.k / 8] ^= (uint8_t)(1u << (IN.k % 8));
	lzma_ret r2 = lzma_stream_header_decode(&b, fl);
	ASSERT(r2 != LZMA_OK, "a single flipped bit in an accepted Stream Header is always rejected");
}

void h_sf_flip(void)
{
	HAVOC(IN, struct in);
	ASSUME(IN.k < 96);
	lzma_stream_flags a, b;
	set_flags(&a, 1, 1, 1); set_flags(&b, 1, 1, 1);
	lzma_ret r1 = lzma_stream_footer_decode(&a, IN.buf);
	if (r1 != LZMA_OK)
		return;
	REACH(flip_f_accepted);
	uint8_t fl[12];
	memcpy(fl, IN.buf, 12);
	fl[IN.k / 8] ^= (uint8_t)(1u << (IN.k % 8));
	lzma_ret r2 = lzma_stream_footer_decode(&b, fl);
	ASSERT(r2 != LZMA_OK, "a single flipped bit in an accepted Stream Footer is always rejected");
}

/* ---- compare ---- */
static bool bs_valid(uint64_t b) { return b >= 4 && b <= (UINT64_C(1) << 34) && (b & 3) == 0; }

static bool post_compare(lzma_ret r)
{
	if (IN.version != 0 || IN.version2 != 0)
		return r == LZMA_OPTIONS_ERROR;
	if (IN.check > 15 || IN.check2 > 15)
		return r == LZMA_PROG_ERROR;
	if (IN.check != IN.check2)
		return r == LZMA_DATA_ERROR;
	if (IN.backward_size != LZMA_VLI_UNKNOWN && IN.backward_size2 != LZMA_VLI_UNKNOWN) {
		if (!bs_valid(IN.backward_size) || !bs_valid(IN.backward_size2))
			return r == LZMA_PROG_ERROR;
		if (IN.backward_size != IN.backward_size2)
			return r == LZMA_DATA_ERROR;
	}
	return r == LZMA_OK;
}

lzma_ret w_sflags_compare(void)
ENSURES(post_compare(RET))
ASSIGNS()
{
	lzma_stream_flags a, b;
	set_flags(&a, IN.version, IN.check, IN.backward_size);
	set_flags(&b, IN.version2, IN.check2, IN.backward_size2);
	return lzma_stream_flags_compare(&a, &b);
}

void h_sflags_compare(void)
{
	HAVOC(IN, struct in);
	lzma_ret r = w_sflags_compare();
	NATIVE_ASSERT(post_compare(r), "lzma_stream_flags_compare");
	REACH_IF(r == LZMA_OK, cmp_ok);
	REACH_IF(r == LZMA_DATA_ERROR, cmp_data);
	REACH_IF(r == LZMA_PROG_ERROR, cmp_prog);
	REACH_IF(r == LZMA_OPTIONS_ERROR, cmp_opt);
}
