/* BCJ filters with 4-byte units (ARM, ARM64, PowerPC, SPARC): the scan loop under an in-source LOOP CONTRACT (unbounded): C15. */

/*@obligation
id: C15.loop.arm
props: C15
entry: h_bcj_lc
defs: -DLC_ARM
loopcontracts: yes
unwind: 6
fn: arm_code
sentinels: 2
expect: 15
timeout: 1200
desc: UNBOUNDED version of C15.multi.arm: arm_code's scan loop carries a loop contract (hook VERIF_BCJ_LOOP_CONTRACT in src/liblzma/simple/arm.c, defined here) with a GHOST unit index K instead of a quantifier: invariant = the loop counter is a multiple of 4 and <= the rounded size; the unit at the arbitrary aligned position K holds the reference transform of its original bytes (at pc = now_pos + K) once the loop has passed it and its original bytes before; an arbitrary byte at or beyond the rounded size is unchanged. For EVERY buffer size 0..1024, every 4-aligned position, both directions: the function returns the size rounded down to 4, EVERY unit equals the independent reference transform at its own position, and no byte after the last whole unit is touched
assume: buffer object of 1024 bytes (the number of loop iterations is not bounded by unwinding, the size of the object is); termination is not proved
*/
/*@obligation
id: C15.loop.powerpc
props: C15
entry: h_bcj_lc
defs: -DLC_POWERPC
loopcontracts: yes
unwind: 6
fn: powerpc_code
sentinels: 2
expect: 15
timeout: 1200
desc: the same for powerpc_code (big-endian units, reference: bl with AA=0, LK=1)
*/
/*@obligation
id: C15.loop.sparc
props: C15
entry: h_bcj_lc
defs: -DLC_SPARC
loopcontracts: yes
unwind: 6
fn: sparc_code
sentinels: 2
expect: 15
timeout: 1200
desc: the same for sparc_code (big-endian units, reference: call with sign-extendable displacement)
*/
/*@obligation
id: C15.loop.arm64
props: C15
entry: h_bcj_lc
defs: -DLC_ARM64
loopcontracts: yes
unwind: 6
fn: arm64_code
sentinels: 2
expect: 15
timeout: 1200
desc: the same for arm64_code (bl and adrp forms of the reference)
*/

#include "verif.h"
#include <stdint.h>
#include <stddef.h>
#include <stdbool.h>
#include "bcj_ref.h"

#ifndef BUFMAX
#define BUFMAX 1024
#endif
struct buf { uint8_t b[BUFMAX]; };
static struct buf B;
struct in { uint32_t pos; uint8_t enc; size_t size, k, t; };
static struct in IN VERIF_IN_INIT;
/* ghosts: unit index, its original and expected bytes; a tail index and its original byte */
static size_t GK, GT; static bool GHT;
static uint8_t GO[4], GE[4], GTO;

#ifndef VERIF_NATIVE   /* a native replay runs the plain loop */
#define VERIF_BCJ_LOOP_CONTRACT \
	__CPROVER_assigns(i, __CPROVER_object_whole(buffer)) \
	__CPROVER_loop_invariant(i <= size && (i & 3) == 0) \
	__CPROVER_loop_invariant(GK < i \
		? (buffer[GK] == GE[0] && buffer[GK + 1] == GE[1] && buffer[GK + 2] == GE[2] && buffer[GK + 3] == GE[3]) \
		: (buffer[GK] == GO[0] && buffer[GK + 1] == GO[1] && buffer[GK + 2] == GO[2] && buffer[GK + 3] == GO[3])) \
	__CPROVER_loop_invariant(!GHT || buffer[GT] == GTO)
#endif

#include "liblzma/common/common.h"
lzma_ret lzma_simple_coder_init(lzma_next_coder *next, const lzma_allocator *allocator, const lzma_filter_info *filters,
		size_t (*filter)(void *simple, uint32_t now_pos, bool is_encoder, uint8_t *buffer, size_t size),
		size_t simple_size, size_t unfiltered_max, uint32_t alignment, bool is_encoder)
{ (void)next; (void)allocator; (void)filters; (void)filter; (void)simple_size; (void)unfiltered_max; (void)alignment; (void)is_encoder; return LZMA_OK; }

#if defined(LC_ARM)
#	include "liblzma/simple/arm.c"
#	define CODE arm_code
#	define REF ref_arm
#	define GET ref_le32
#	define PUT ref_put_le32
#elif defined(LC_POWERPC)
#	include "liblzma/simple/powerpc.c"
#	define CODE powerpc_code
#	define REF ref_powerpc
#	define GET ref_be32
#	define PUT ref_put_be32
#elif defined(LC_SPARC)
#	include "liblzma/simple/sparc.c"
#	define CODE sparc_code
#	define REF ref_sparc
#	define GET ref_be32
#	define PUT ref_put_be32
#else
#	include "liblzma/simple/arm64.c"
#	define CODE arm64_code
#	define REF ref_arm64
#	define GET ref_le32
#	define PUT ref_put_le32
#endif

void h_bcj_lc(void)
{
	HAVOC(IN, struct in);
	HAVOC(B, struct buf);
	ASSUME(IN.size <= BUFMAX && IN.enc <= 1);
	ASSUME((IN.pos & 3) == 0);      /* these filters have alignment 4: start offset and every now_pos are multiples of 4 (simple_coder.c, lzma_simple_props_decode) */
	const size_t rounded = IN.size & ~(size_t)3;
	/* an arbitrary whole unit (if there is one) and an arbitrary byte behind the last whole unit (if there is one) */
	const bool have_unit = rounded >= 4, have_tail = rounded < BUFMAX;
	GK = have_unit ? IN.k : 0; GT = have_tail ? IN.t : 0;
	if (have_unit) ASSUME((IN.k & 3) == 0 && IN.k <= rounded - 4);
	if (have_tail) ASSUME(IN.t >= rounded && IN.t < BUFMAX);
	if (!have_unit) { ASSUME(BUFMAX >= 4); }
	for (int j = 0; j < 4; ++j) GO[j] = B.b[GK + j];
	PUT(GE, REF(GET(GO), IN.pos + (uint32_t)GK, IN.enc));
	if (!have_unit) for (int j = 0; j < 4; ++j) GE[j] = GO[j];          /* no unit: nothing may change */
	GTO = B.b[GT];
	GHT = have_tail;
	const size_t r = CODE(NULL, IN.pos, IN.enc, B.b, IN.size);
	ASSERT(r == rounded, "returns the size rounded down to a whole unit");
	if (have_unit) {
		ASSERT(B.b[GK] == GE[0] && B.b[GK + 1] == GE[1] && B.b[GK + 2] == GE[2] && B.b[GK + 3] == GE[3], "EVERY unit (arbitrary K) equals the reference transform at pc = now_pos + K");
		REACH(lcb_unit);
		REACH_IF(GE[0] != GO[0] || GE[1] != GO[1] || GE[2] != GO[2] || GE[3] != GO[3], lcb_unit_converted);
	}
	if (have_tail) ASSERT(B.b[GT] == GTO, "no byte at or beyond the rounded size is touched");
}
