/* LZMA symbol decoder lzma_decode() (src/liblzma/lzma/lzma_decoder.c), resumable mode: lemmas over one symbol (C03, C04, C06). */

/*@obligation
id: C06.lzma_decode.noinput
props: C06 C03 C16
entry: h_noinput
defs: -DNI_RANGE=0x00FFFFFF
unwind: 2
fn: lzma_decode
sentinels: 3
expect: 30
timeout: 1500
desc: resumption lemma for the real lzma_decode in resumable mode: entered in ANY of the 21 sequence states whose next action reads a range-coder bit, with ANY coder contents (probabilities, reps, state, symbol/limit/offset/len, sizes), any dictionary state, and NO input available while the range decoder needs a byte (range < 2^24): it returns LZMA_OK having consumed nothing, written nothing to the dictionary and left EVERY byte of the coder object -- in particular coder->sequence, the resumption point -- unchanged; so an input boundary at a normalisation point never moves the decoder to a different place in the symbol grammar
assume: the range decoder's range is fixed to a representative value below 2^24 (2^24-1 here, 1 in the .lo variant): before returning, the code only compares range with 2^24, and with range left symbolic CBMC's symbolic execution walks the whole symbol grammar and runs out of memory
assume: dict_put/dict_put_safe/dict_repeat are replaced by recording stubs that report 'output full' (they are not reached in this lemma)
*/
/*@obligation
id: C06.lzma_decode.noinput.lo
props: C06 C03 C16
entry: h_noinput
defs: -DNI_RANGE=1
unwind: 2
fn: lzma_decode
sentinels: 3
expect: 30
timeout: 1500
desc: resumption lemma for the real lzma_decode in resumable mode: entered in ANY of the 21 sequence states whose next action reads a range-coder bit, with ANY coder contents (probabilities, reps, state, symbol/limit/offset/len, sizes), any dictionary state, and NO input available while the range decoder needs a byte (range < 2^24): it returns LZMA_OK having consumed nothing, written nothing to the dictionary and left EVERY byte of the coder object -- in particular coder->sequence, the resumption point -- unchanged; so an input boundary at a normalisation point never moves the decoder to a different place in the symbol grammar
assume: the range decoder's range is fixed to a representative value below 2^24 (2^24-1 here, 1 in the .lo variant): before returning, the code only compares range with 2^24, and with range left symbolic CBMC's symbolic execution walks the whole symbol grammar and runs out of memory
assume: dict_put/dict_put_safe/dict_repeat are replaced by recording stubs that report 'output full' (they are not reached in this lemma)
*/
/*@obligation
id: C06.lzma_decode.outfull.literal
props: C06 C03 C04
entry: h_outfull
defs: -DOF_SEQ=SEQ_LITERAL_WRITE
unwind: 2
fn: lzma_decode
sentinels: 2
expect: 30
timeout: 900
desc: output-side resumption lemma for the real lzma_decode: entered in a state that writes to the dictionary (this variant: SEQ_LITERAL_WRITE; the .shortrep and .copy variants: SEQ_SHORTREP, SEQ_COPY) with ANY coder contents, any input, a well-formed dictionary and a validated repeat distance, when the dictionary writer reports 'no room': it returns with the SAME resumption state, consumes no input, changes no LZMA state/rep/partial-symbol register and calls the writer exactly once with the pending literal / distance / length; the result is LZMA_OK, or LZMA_DATA_ERROR exactly when the known uncompressed size is already exhausted (more output than declared)
assume: dict_put_safe/dict_repeat are recording stubs that report 'output full'
*/
/*@obligation
id: C06.lzma_decode.outfull.shortrep
props: C06 C03 C04
entry: h_outfull
defs: -DOF_SEQ=SEQ_SHORTREP
unwind: 2
fn: lzma_decode
sentinels: 2
expect: 30
timeout: 900
desc: output-side resumption lemma for the real lzma_decode: entered in a state that writes to the dictionary (this variant: SEQ_LITERAL_WRITE; the .shortrep and .copy variants: SEQ_SHORTREP, SEQ_COPY) with ANY coder contents, any input, a well-formed dictionary and a validated repeat distance, when the dictionary writer reports 'no room': it returns with the SAME resumption state, consumes no input, changes no LZMA state/rep/partial-symbol register and calls the writer exactly once with the pending literal / distance / length; the result is LZMA_OK, or LZMA_DATA_ERROR exactly when the known uncompressed size is already exhausted (more output than declared)
assume: dict_put_safe/dict_repeat are recording stubs that report 'output full'
*/
/*@obligation
id: C06.lzma_decode.outfull.copy
props: C06 C03 C04
entry: h_outfull
defs: -DOF_SEQ=SEQ_COPY
unwind: 2
fn: lzma_decode
sentinels: 2
expect: 30
timeout: 900
desc: output-side resumption lemma for the real lzma_decode: entered in a state that writes to the dictionary (this variant: SEQ_LITERAL_WRITE; the .shortrep and .copy variants: SEQ_SHORTREP, SEQ_COPY) with ANY coder contents, any input, a well-formed dictionary and a validated repeat distance, when the dictionary writer reports 'no room': it returns with the SAME resumption state, consumes no input, changes no LZMA state/rep/partial-symbol register and calls the writer exactly once with the pending literal / distance / length; the result is LZMA_OK, or LZMA_DATA_ERROR exactly when the known uncompressed size is already exhausted (more output than declared)
assume: dict_put_safe/dict_repeat are recording stubs that report 'output full'
*/
/* NOT REGISTERED (tool limit): a lemma "dict_repeat is only reached with distance < dict.full" entered at SEQ_DIST_SLOT (h_distance below)
 * runs out of memory (12 GB) within two minutes even with one input byte: every probs[symbol] access is a symbolic-offset access
 * into the 28 KiB coder object, which CBMC models as byte updates of the whole object. Seed C04-2 therefore stays missed. */

#include "verif.h"
#include "liblzma/common/common.h"
#include "liblzma/lz/lz_decoder.h"

/* recording stubs for the three dictionary writers (static inline in lz_decoder.h) */
static struct { unsigned repeats, puts; uint32_t dist, len; size_t full, pos; bool bad_dist; } G;
static bool verif_dict_repeat(lzma_dict *dict, uint32_t distance, uint32_t *len)
{
	++G.repeats; G.dist = distance; G.len = *len; G.full = dict->full; G.pos = dict->pos;
	if (!(dict->full > distance)) G.bad_dist = true;
	return true;                       /* 'dictionary full': the caller saves SEQ_COPY and returns */
}
static bool verif_dict_put_safe(lzma_dict *dict, uint8_t byte) { (void)dict; (void)byte; ++G.puts; return true; }
static void verif_dict_put(lzma_dict *dict, uint8_t byte) { (void)dict; (void)byte; ++G.puts; }
#define dict_repeat verif_dict_repeat
#define dict_put_safe verif_dict_put_safe
#define dict_put verif_dict_put
#include "liblzma/lzma/lzma_decoder.c"
#undef dict_repeat
#undef dict_put_safe
#undef dict_put

#ifndef DEC_INPUT
#define DEC_INPUT 0
#endif
#define DSIZE (2 * LZ_DICT_REPEAT_MAX + 64)
struct in { uint32_t seq; uint64_t pos, full, limit; uint8_t has_wrapped; uint8_t input[8]; size_t k; };
static struct in IN VERIF_IN_INIT;
static lzma_lzma1_decoder C, PRE;
struct dbuf { uint8_t b[DSIZE + LZ_DICT_EXTRA]; };
static struct dbuf DB;
static lzma_dict D;

static bool rc_first(uint32_t s)
{
	return s == SEQ_NORMALIZE || s == SEQ_EOPM || s == SEQ_IS_MATCH || s == SEQ_LITERAL || s == SEQ_LITERAL_MATCHED || s == SEQ_IS_REP
		|| s == SEQ_MATCH_LEN_CHOICE || s == SEQ_MATCH_LEN_CHOICE2 || s == SEQ_MATCH_LEN_BITTREE
		|| s == SEQ_DIST_SLOT || s == SEQ_DIST_MODEL || s == SEQ_DIRECT || s == SEQ_ALIGN
		|| s == SEQ_IS_REP0 || s == SEQ_IS_REP0_LONG || s == SEQ_IS_REP1 || s == SEQ_IS_REP2
		|| s == SEQ_REP_LEN_CHOICE || s == SEQ_REP_LEN_CHOICE2 || s == SEQ_REP_LEN_BITTREE;
}

/* representation invariant of a decoder that is between two calls (from lzma_decoder_reset / lzma_decode's own stores) */
static bool coder_wf(void)
{
	if (C.rc.init_bytes_left != 0) return false;
	if (C.state >= STATES) return false;
	if (C.pos_mask != 0 && C.pos_mask != 1 && C.pos_mask != 3 && C.pos_mask != 7 && C.pos_mask != 15) return false;
	if (C.literal_context_bits > 8) return false;
	if (C.literal_mask > 0xF00 + 0xFF) return false;
	return true;
}
static bool dict_wf(void)
{
	return IN.pos >= LZ_DICT_INIT_POS && IN.pos <= IN.limit && IN.limit <= DSIZE && IN.has_wrapped <= 1
		&& IN.full == (IN.has_wrapped ? DSIZE - LZ_DICT_INIT_POS : IN.pos - LZ_DICT_INIT_POS);   /* lz_decoder.h: how 'full' follows 'pos' */
}
static void setup(void)
{
	memset(&G, 0, sizeof(G));
	D.buf = DB.b; D.pos = IN.pos; D.full = IN.full; D.limit = IN.limit; D.size = DSIZE; D.has_wrapped = IN.has_wrapped; D.need_reset = false;
	C.sequence = IN.seq;
}

void h_noinput(void)
{
	HAVOC(IN, struct in);
	HAVOC(C, lzma_lzma1_decoder);
	HAVOC(DB, struct dbuf);
	ASSUME(rc_first(IN.seq) && dict_wf());
	setup();
	ASSUME(coder_wf());
	ASSUME(C.rc.range < RC_TOP_VALUE);
#ifdef NI_RANGE
	C.rc.range = NI_RANGE;
#endif
#ifdef NI_BITFIELD
	{ struct { uint32_t r : 24; } rb; rb.r = IN.pos >> 8; C.rc.range = rb.r; }
#endif
	/* the saved bit-model pointer designates a model inside the coder (it is only dereferenced in the bittree states) */
	C.probs = C.rep_len_decoder.high;
	PRE = C;
	size_t in_pos = 0;
	const lzma_ret r = lzma_decode(&C, &D, IN.input, &in_pos, 0);
	ASSERT(r == LZMA_OK, "no input at a normalisation point: LZMA_OK (come back with more input)");
	ASSERT(in_pos == 0 && D.pos == IN.pos && D.full == IN.full && G.repeats == 0 && G.puts == 0, "nothing consumed, nothing written");
	ASSERT(C.sequence == IN.seq || ((IN.seq == SEQ_IS_MATCH || IN.seq == SEQ_NORMALIZE) && (C.sequence == SEQ_NORMALIZE || C.sequence == SEQ_IS_MATCH)), "the resumption point is the state that was interrupted (SEQ_NORMALIZE and SEQ_IS_MATCH are the same label)");
	ASSERT(C.rc.range == PRE.rc.range && C.rc.code == PRE.rc.code && C.rc.init_bytes_left == 0, "range decoder unchanged");
	ASSERT(C.state == PRE.state && C.rep0 == PRE.rep0 && C.rep1 == PRE.rep1 && C.rep2 == PRE.rep2 && C.rep3 == PRE.rep3, "LZMA state and repeat distances unchanged");
	ASSERT(C.probs == PRE.probs && C.symbol == PRE.symbol && C.limit == PRE.limit && C.offset == PRE.offset && C.len == PRE.len, "partial-symbol registers unchanged");
	ASSERT(C.uncompressed_size == PRE.uncompressed_size && C.allow_eopm == PRE.allow_eopm, "remaining size unchanged");
	ASSUME(IN.k < STATES);
	ASSERT(C.is_rep[IN.k] == PRE.is_rep[IN.k] && C.is_rep0[IN.k] == PRE.is_rep0[IN.k] && C.is_rep1[IN.k] == PRE.is_rep1[IN.k] && C.is_rep2[IN.k] == PRE.is_rep2[IN.k], "probabilities unchanged (sampled at an arbitrary index)");
	REACH_IF(IN.seq == SEQ_IS_REP2, ni_is_rep2);
	REACH_IF(IN.seq == SEQ_DIRECT, ni_direct);
	REACH_IF(IN.seq == SEQ_LITERAL_MATCHED, ni_literal_matched);
}


void h_distance(void)
{
	HAVOC(IN, struct in);
	HAVOC(C, lzma_lzma1_decoder);
	HAVOC(DB, struct dbuf);
	ASSUME(IN.seq == SEQ_DIST_SLOT && dict_wf());
	setup();
	C.sequence = SEQ_DIST_SLOT;     /* constant: symbolic execution enters at that label only */
	ASSUME(coder_wf());
	/* resumable state inside / at the start of the distance-slot bittree: model of one of the 4 length classes, 1 <= symbol < 64 */
	ASSUME(IN.k < DIST_STATES);
	C.probs = C.dist_slot[IN.k];
	ASSUME(C.symbol >= 1 && C.symbol < DIST_SLOTS);
	ASSUME(C.len >= MATCH_LEN_MIN && C.len <= MATCH_LEN_MAX);
	size_t in_pos = 0;
	const lzma_ret r = lzma_decode(&C, &D, IN.input, &in_pos, DEC_INPUT);
	ASSERT(!G.bad_dist, "dict_repeat is only reached with a distance inside the written history (distance < dict.full)");
	ASSERT(G.repeats <= 1 && G.puts == 0, "one new match, no literal");
	if (G.repeats == 1) {
		ASSERT(r == LZMA_OK && C.sequence == SEQ_COPY, "output full while copying: resume at SEQ_COPY");
		ASSERT(C.rep0 == G.dist && G.dist < IN.full, "the distance kept for the copy is the validated one");
		REACH(dist_copy);
		REACH_IF(G.dist >= 128, dist_copy_far);
	}
	REACH_IF(r == LZMA_DATA_ERROR && G.repeats == 0, dist_rejected);
	ASSERT(in_pos <= DEC_INPUT, "input position stays inside the buffer");
}


void h_outfull(void)
{
	HAVOC(IN, struct in);
	HAVOC(C, lzma_lzma1_decoder);
	HAVOC(DB, struct dbuf);
	ASSUME((IN.seq == SEQ_LITERAL_WRITE || IN.seq == SEQ_SHORTREP || IN.seq == SEQ_COPY) && dict_wf());
	setup();
#ifdef OF_SEQ
	C.sequence = OF_SEQ; ASSUME(IN.seq == OF_SEQ);
#endif
	ASSUME(coder_wf());
	ASSUME(IN.seq == SEQ_LITERAL_WRITE || C.rep0 < IN.full);        /* distances are validated before these states are entered */
	C.probs = C.rep_len_decoder.high;
	PRE = C;
	size_t in_pos = 0;
	const lzma_ret r = lzma_decode(&C, &D, IN.input, &in_pos, 6);
	const bool exhausted = PRE.uncompressed_size == 0;
	ASSERT(r == (exhausted ? LZMA_DATA_ERROR : LZMA_OK), "no room: LZMA_OK, or LZMA_DATA_ERROR when the declared size is already used up");
	ASSERT(C.sequence == IN.seq, "the resumption point is the state that was interrupted");
	ASSERT(in_pos == 0 && D.pos == IN.pos && D.full == IN.full, "nothing consumed, dictionary position unchanged");
	ASSERT(G.repeats + G.puts == 1 && (G.repeats == 1) == (IN.seq == SEQ_COPY), "the writer was asked exactly once");
	if (IN.seq == SEQ_COPY) ASSERT(G.dist == PRE.rep0 && G.len == PRE.len, "copy resumes with the saved distance and remaining length");
	ASSERT(C.rc.range == PRE.rc.range && C.rc.code == PRE.rc.code, "range decoder unchanged");
	ASSERT(C.state == PRE.state && C.rep0 == PRE.rep0 && C.rep1 == PRE.rep1 && C.rep2 == PRE.rep2 && C.rep3 == PRE.rep3, "LZMA state and repeat distances unchanged");
	ASSERT(C.symbol == PRE.symbol && C.limit == PRE.limit && C.offset == PRE.offset && C.len == PRE.len, "partial-symbol registers unchanged");
	ASSERT(C.uncompressed_size == PRE.uncompressed_size, "remaining size unchanged");
	REACH_IF(!exhausted, of_resumable);
	REACH_IF(exhausted, of_exhausted);
}
