/* xz exit status lattice (src/xz/main.c): C19, C17. */

/*@obligation
id: C19.exit_status
props: C19 C17
entry: h_exit_status
flags: xz
unwind: 5
fn: set_exit_status
sentinels: 2
expect: 3
replay: none
desc: set_exit_status over EVERY history of three warning/error events from every starting status: once an error occurred the status is E_ERROR (1) for good -- a later warning never hides it and an earlier warning never blocks it; warnings alone give E_WARNING (2); nothing gives E_SUCCESS back
*/

#include "verif.h"
#define main xz_main_unused
#include "main.c"
#undef main

struct in { uint32_t start, ev[3]; };
static struct in IN VERIF_IN_INIT;

void h_exit_status(void)
{
	HAVOC(IN, struct in);
	ASSUME(IN.start <= 2);
	exit_status = (enum exit_status_type)IN.start;
	bool any_error = IN.start == E_ERROR;
	for (int i = 0; i < 3; ++i) {
		ASSUME(IN.ev[i] == E_WARNING || IN.ev[i] == E_ERROR);
		set_exit_status((enum exit_status_type)IN.ev[i]);
		if (IN.ev[i] == E_ERROR) any_error = true;
		ASSERT(exit_status == (any_error ? E_ERROR : E_WARNING), "exit status is E_ERROR iff an error has occurred so far, else E_WARNING");
	}
	REACH_IF(any_error, exit_error);
	REACH_IF(!any_error, exit_warning);
}
