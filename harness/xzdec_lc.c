/* xzdec / lzmadec decoding loop under an in-source LOOP CONTRACT (unbounded): C18. */

/*@obligation
id: C18.xzdec.loop
props: C18
entry: h_xzdec_lc
flags: xz
loopcontracts: yes
unwind: 3
fn: uncompress
sentinels: 3
expect: 20
replay: none
timeout: 1800
desc: UNBOUNDED version of C18.xzdec: the while(true) loop of xzdec's real uncompress() carries a loop contract (hook VERIF_XZDEC_LOOP_CONTRACT in src/xzdec/xzdec.c, defined here): invariant = no read error and no short write so far, the output pointer/amount are consistent with the stack buffer, bytes produced by lzma_code == bytes completely written + bytes waiting in the buffer, LZMA_FINISH is only in force once end-of-file was seen. CBMC proves it on entry and across an arbitrary iteration (lzma_code returning ANY code/amounts, fread/fwrite with any result) and that EVERY way out satisfies: a normal return only after LZMA_STREAM_END with every produced byte written by complete fwrite calls, at the end of the input; exit(EXIT_FAILURE) -- and no other status -- for a failed initialisation, read error, short write or decoder error, the latter only after everything decoded before it was written; for any number of iterations
assume: lzma_stream_decoder/lzma_code/fread/ferror/feof/fwrite/exit are stubs with fresh nondeterministic results at every call; lzma_code's stub honours the documented LZMA_CONCATENATED contract (LZMA_STREAM_END only with LZMA_FINISH and all input consumed); termination is not proved
*/
/*@obligation
id: C18.lzmadec.loop
props: C18
entry: h_xzdec_lc
flags: xz
defs: -DLZMADEC
loopcontracts: yes
unwind: 3
fn: uncompress
sentinels: 3
expect: 20
replay: none
timeout: 1800
desc: the same for lzmadec (LZMA_Alone), plus: it returns after LZMA_STREAM_END only if nothing is left in the input buffer and a further fread finds end-of-file (trailing bytes are 'File is corrupt'); for any number of iterations
assume: as for C18.xzdec.loop
*/

#include "verif.h"
#include <stdint.h>
#include <stddef.h>
#include <stdbool.h>
#include <stdio.h>

static struct {
	unsigned code_calls, reads, writes, inits;
	uint32_t last_ret; bool have_last;
	uint64_t produced, written;
	bool read_error, eof, short_write, write_bad_args;
} G;
struct in { uint32_t init_ret; uint8_t display; };
static struct in IN VERIF_IN_INIT;

#ifdef LZMADEC
#	define XD_ACTION_INV (action == LZMA_RUN)
#else
#	define XD_ACTION_INV ((action == LZMA_RUN || action == LZMA_FINISH) && (action != LZMA_FINISH || G.eof))
#endif
#define VERIF_XZDEC_LOOP_CONTRACT \
	__CPROVER_assigns(action, ret, *strm, G, __CPROVER_object_whole(in_buf), __CPROVER_object_whole(out_buf)) \
	__CPROVER_loop_invariant(!G.read_error && !G.short_write && !G.write_bad_args && G.inits == 1) \
	__CPROVER_loop_invariant(strm->avail_out <= BUFSIZ && __CPROVER_same_object(strm->next_out, out_buf) \
		&& __CPROVER_POINTER_OFFSET(strm->next_out) == BUFSIZ - strm->avail_out) \
	__CPROVER_loop_invariant(strm->avail_in <= BUFSIZ && (strm->avail_in == 0 || (__CPROVER_same_object(strm->next_in, in_buf) \
		&& __CPROVER_POINTER_OFFSET(strm->next_in) + strm->avail_in <= BUFSIZ))) \
	__CPROVER_loop_invariant(G.written + (BUFSIZ - strm->avail_out) == G.produced) \
	__CPROVER_loop_invariant(XD_ACTION_INV)

#define main xzdec_main
#include "xzdec/xzdec.c"
#undef main

uint32_t nondet_verif_u32(void);
size_t nondet_verif_size(void);
uint8_t nondet_verif_u8(void);

static lzma_stream S = LZMA_STREAM_INIT;
static FILE *const FIN = (FILE *)&G;

static lzma_ret init_stub(lzma_stream *s) { ++G.inits; ASSERT(s == &S, "initialising the given stream"); return (lzma_ret)IN.init_ret; }
lzma_ret lzma_stream_decoder(lzma_stream *s, uint64_t m, uint32_t f) { ASSERT(m == UINT64_MAX && f == LZMA_CONCATENATED, "xzdec: no memory limit, concatenated streams"); return init_stub(s); }
lzma_ret lzma_alone_decoder(lzma_stream *s, uint64_t m) { ASSERT(m == UINT64_MAX, "lzmadec: no memory limit"); return init_stub(s); }

lzma_ret lzma_code(lzma_stream *s, lzma_action action)
{
	++G.code_calls;
	const size_t ui = nondet_verif_size(), mo = nondet_verif_size();
	const uint32_t r = nondet_verif_u32();
	__CPROVER_assume(ui <= s->avail_in && mo <= s->avail_out && r <= LZMA_RET_INTERNAL8);
	s->avail_in -= ui; if (ui > 0) s->next_in += ui;
	s->avail_out -= mo; if (mo > 0) s->next_out += mo;
	G.produced += mo;
#ifndef LZMADEC
	__CPROVER_assume(r != LZMA_STREAM_END || (action == LZMA_FINISH && s->avail_in == 0));
#else
	(void)action;
#endif
	G.last_ret = r; G.have_last = true;
	return (lzma_ret)r;
}
size_t fread(void *restrict p, size_t sz, size_t n, FILE *restrict f)
{
	(void)p;
	++G.reads;
	if (f != FIN || sz != 1 || n > BUFSIZ) G.write_bad_args = true;
	if (G.eof) return 0;                                   /* the end-of-file indicator is sticky */
	if (nondet_verif_u8() & 1) { G.read_error = true; return 0; }
	const size_t got = nondet_verif_size();
	__CPROVER_assume(got <= n);
	const bool at_eof = got < n || (nondet_verif_u8() & 1);    /* a short count without error means end of file */
	if (at_eof) G.eof = true;
	return got;
}
int ferror(FILE *f) { (void)f; return G.read_error; }
int feof(FILE *f) { (void)f; return G.eof; }
size_t fwrite(const void *restrict p, size_t sz, size_t n, FILE *restrict f)
{
	++G.writes;
	/* the buffer start is next_out minus what is pending */
	if (f != stdout || sz != 1 || n != BUFSIZ - S.avail_out || (const uint8_t *)p != S.next_out - n) G.write_bad_args = true;
	const size_t w = nondet_verif_size();
	__CPROVER_assume(w <= n);
	if (w != n) G.short_write = true; else G.written += n;
	return w;
}
void exit(int status)
{
	ASSERT(status == EXIT_FAILURE, "uncompress() only ever exits with EXIT_FAILURE");
	const bool init_failed = IN.init_ret != LZMA_OK;
	const bool decode_error = G.have_last && G.last_ret != LZMA_OK
#ifndef LZMADEC
		&& G.last_ret != LZMA_STREAM_END
#endif
		;
	ASSERT(init_failed || G.read_error || G.short_write || decode_error, "exit(EXIT_FAILURE) only for: failed initialisation, read error, short write, decoder error (lzmadec: or trailing garbage)");
	if (decode_error && !G.short_write && !G.read_error && !init_failed)
		{ ASSERT(G.written == G.produced, "a decoder error is reported only after everything decoded before it was written"); REACH(xdl_error_after_flush); }
	__CPROVER_assume(0);
}
char *strerror(int e) { (void)e; static char m[] = "e"; return m; }
int fprintf(FILE *restrict f, const char *restrict fmt, ...) { (void)f; (void)fmt; return 0; }
int vfprintf(FILE *restrict f, const char *restrict fmt, va_list ap) { (void)f; (void)fmt; (void)ap; return 0; }
const char *tuklib_mask_nonprint(const char *s) { return s; }

void h_xzdec_lc(void)
{
	HAVOC(IN, struct in);
	ASSUME(IN.init_ret <= LZMA_RET_INTERNAL8 && IN.display <= 1);
	memset(&G, 0, sizeof(G));
	display_errors = IN.display;
	static char NAME[] = "f";
	uncompress(&S, FIN, NAME);
	ASSERT(IN.init_ret == LZMA_OK && G.inits == 1, "returns only after a successful initialisation");
	ASSERT(G.have_last && G.last_ret == LZMA_STREAM_END, "returns only after LZMA_STREAM_END");
	ASSERT(!G.read_error && !G.short_write, "returns only if no read failed and every fwrite was complete");
	ASSERT(G.written == G.produced, "returns only after every produced byte was written to stdout");
	ASSERT(!G.write_bad_args, "fwrite is given the output buffer from its start with exactly the pending amount");
	ASSERT(S.avail_in == 0 && G.eof, "returns only at the end of the input (lzmadec: trailing bytes are an error)");
	REACH(xdl_success);
	REACH_IF(G.writes >= 2, xdl_success_two_writes);
}
