/* Index hash (src/liblzma/common/index_hash.c): validating the Index against the decoded Blocks: C03, C05, C06, C13, C04. */

/*@obligation
id: C03.ihash.append
props: C03 C05 C13 C04
entry: h_ihash_append
unwind: 12
fn: lzma_index_hash_append hash_append
sentinels: 3
expect: 20
desc: lzma_index_hash_append for all sizes from any accumulated state: PROG_ERROR (nothing changed) for NULL, for a hash that already started decoding the Index, for Unpadded Size outside 5..UNPADDED_SIZE_MAX, Uncompressed Size above LZMA_VLI_MAX; otherwise Block count+1, total size += ceil4(unpadded), uncompressed += size, Index list size += vli_size(u)+vli_size(c), both values fed to the running hash in that order; DATA_ERROR as soon as the totals exceed LZMA_VLI_MAX, the Index would exceed the Backward Size limit (2^34) or the Stream would exceed LZMA_VLI_MAX
assume: lzma_check_update is a recording stub (the hash function itself: C14)
*/
/*@obligation
id: C03.ihash.decode.block
defs: -DIH_SEQ=0
missed_ok: yes
props: C03 C05 C06 C13 C04
entry: h_ihash_decode
unwind: 12
fn: lzma_index_hash_decode
sentinels: 2
expect: 40
timeout: 600
desc: (entry state block) one lzma_index_hash_decode call from ANY state with 1..3 input bytes (1..5 in the padding/CRC states) (every way the input can end inside a field): Index Indicator must be 0x00; the Record count must equal the number of Blocks decoded; each Record's Unpadded Size must be in 5..UNPADDED_SIZE_MAX; after every Record the Record totals may not exceed the Block totals; at the end count, total size, uncompressed size and list size must all be EQUAL and the running hashes of Blocks and Records must match; Index Padding bytes must be zero; the CRC32 is computed over exactly the Index bytes consumed before the CRC field, fed once and in order on every return path (independent of input slicing), and the four stored CRC bytes must equal it (little endian); STREAM_END only after the 4th matching CRC byte; LZMA_BUF_ERROR only with no input
assume: lzma_check_update/finish are stubs (finish yields nondeterministic digests); lzma_crc32 is a ghost order- and range-sensitive fold
*/
/*@obligation
id: C03.ihash.decode.count
defs: -DIH_SEQ=1
missed_ok: yes
props: C03 C05 C06 C13 C04
entry: h_ihash_decode
unwind: 12
fn: lzma_index_hash_decode
sentinels: 1
expect: 40
timeout: 600
desc: (entry state count) one lzma_index_hash_decode call from ANY state with 1..3 input bytes (1..5 in the padding/CRC states) (every way the input can end inside a field): Index Indicator must be 0x00; the Record count must equal the number of Blocks decoded; each Record's Unpadded Size must be in 5..UNPADDED_SIZE_MAX; after every Record the Record totals may not exceed the Block totals; at the end count, total size, uncompressed size and list size must all be EQUAL and the running hashes of Blocks and Records must match; Index Padding bytes must be zero; the CRC32 is computed over exactly the Index bytes consumed before the CRC field, fed once and in order on every return path (independent of input slicing), and the four stored CRC bytes must equal it (little endian); STREAM_END only after the 4th matching CRC byte; LZMA_BUF_ERROR only with no input
assume: lzma_check_update/finish are stubs (finish yields nondeterministic digests); lzma_crc32 is a ghost order- and range-sensitive fold
*/
/*@obligation
id: C03.ihash.decode.unpadded
defs: -DIH_SEQ=2
missed_ok: yes
props: C03 C05 C06 C13 C04
entry: h_ihash_decode
unwind: 12
fn: lzma_index_hash_decode
sentinels: 2
expect: 40
timeout: 600
desc: (entry state unpadded) one lzma_index_hash_decode call from ANY state with 1..3 input bytes (1..5 in the padding/CRC states) (every way the input can end inside a field): Index Indicator must be 0x00; the Record count must equal the number of Blocks decoded; each Record's Unpadded Size must be in 5..UNPADDED_SIZE_MAX; after every Record the Record totals may not exceed the Block totals; at the end count, total size, uncompressed size and list size must all be EQUAL and the running hashes of Blocks and Records must match; Index Padding bytes must be zero; the CRC32 is computed over exactly the Index bytes consumed before the CRC field, fed once and in order on every return path (independent of input slicing), and the four stored CRC bytes must equal it (little endian); STREAM_END only after the 4th matching CRC byte; LZMA_BUF_ERROR only with no input
assume: lzma_check_update/finish are stubs (finish yields nondeterministic digests); lzma_crc32 is a ghost order- and range-sensitive fold
*/
/*@obligation
id: C03.ihash.decode.uncompressed
defs: -DIH_SEQ=3
missed_ok: yes
props: C03 C05 C06 C13 C04
entry: h_ihash_decode
unwind: 12
fn: lzma_index_hash_decode
sentinels: 2
expect: 40
timeout: 600
desc: (entry state uncompressed) one lzma_index_hash_decode call from ANY state with 1..3 input bytes (1..5 in the padding/CRC states) (every way the input can end inside a field): Index Indicator must be 0x00; the Record count must equal the number of Blocks decoded; each Record's Unpadded Size must be in 5..UNPADDED_SIZE_MAX; after every Record the Record totals may not exceed the Block totals; at the end count, total size, uncompressed size and list size must all be EQUAL and the running hashes of Blocks and Records must match; Index Padding bytes must be zero; the CRC32 is computed over exactly the Index bytes consumed before the CRC field, fed once and in order on every return path (independent of input slicing), and the four stored CRC bytes must equal it (little endian); STREAM_END only after the 4th matching CRC byte; LZMA_BUF_ERROR only with no input
assume: lzma_check_update/finish are stubs (finish yields nondeterministic digests); lzma_crc32 is a ghost order- and range-sensitive fold
*/
/*@obligation
id: C03.ihash.decode.padding
defs: -DIH_SEQ=5
missed_ok: yes
props: C03 C05 C06 C13 C04
entry: h_ihash_decode
unwind: 12
fn: lzma_index_hash_decode
sentinels: 2
expect: 40
timeout: 600
desc: (entry state padding) one lzma_index_hash_decode call from ANY state with 1..3 input bytes (1..5 in the padding/CRC states) (every way the input can end inside a field): Index Indicator must be 0x00; the Record count must equal the number of Blocks decoded; each Record's Unpadded Size must be in 5..UNPADDED_SIZE_MAX; after every Record the Record totals may not exceed the Block totals; at the end count, total size, uncompressed size and list size must all be EQUAL and the running hashes of Blocks and Records must match; Index Padding bytes must be zero; the CRC32 is computed over exactly the Index bytes consumed before the CRC field, fed once and in order on every return path (independent of input slicing), and the four stored CRC bytes must equal it (little endian); STREAM_END only after the 4th matching CRC byte; LZMA_BUF_ERROR only with no input
assume: lzma_check_update/finish are stubs (finish yields nondeterministic digests); lzma_crc32 is a ghost order- and range-sensitive fold
*/
/*@obligation
id: C03.ihash.decode.crc32
defs: -DIH_SEQ=6
missed_ok: yes
props: C03 C05 C06 C13 C04
entry: h_ihash_decode
unwind: 12
fn: lzma_index_hash_decode
sentinels: 2
expect: 40
timeout: 600
desc: (entry state crc32) one lzma_index_hash_decode call from ANY state with 1..3 input bytes (1..5 in the padding/CRC states) (every way the input can end inside a field): Index Indicator must be 0x00; the Record count must equal the number of Blocks decoded; each Record's Unpadded Size must be in 5..UNPADDED_SIZE_MAX; after every Record the Record totals may not exceed the Block totals; at the end count, total size, uncompressed size and list size must all be EQUAL and the running hashes of Blocks and Records must match; Index Padding bytes must be zero; the CRC32 is computed over exactly the Index bytes consumed before the CRC field, fed once and in order on every return path (independent of input slicing), and the four stored CRC bytes must equal it (little endian); STREAM_END only after the 4th matching CRC byte; LZMA_BUF_ERROR only with no input
assume: lzma_check_update/finish are stubs (finish yields nondeterministic digests); lzma_crc32 is a ghost order- and range-sensitive fold
*/

#include "verif.h"
#include "spec_vli.h"
#include "liblzma/common/common.h"
#include "liblzma/check/check.h"

static uint32_t ghost_fold(const uint8_t *buf, size_t size, uint32_t crc)
{
	for (size_t k = 0; k < size; ++k)
		crc = ((crc << 5) | (crc >> 27)) ^ (uint32_t)(buf[k] + 0x9E37u);
	return crc;
}
uint32_t lzma_crc32(const uint8_t *buf, size_t size, uint32_t crc) { return ghost_fold(buf, size, crc); }

struct info { uint64_t blocks_size, unc, count, ils; };
struct in {
	uint32_t seq; struct info b, r; uint64_t remaining, unp, unc; size_t pos; uint32_t crc;
	uint8_t inb[8]; size_t in_size;
	uint64_t a_unp, a_unc; uint8_t null_hash;
	uint8_t dig_equal;
};
static struct in IN VERIF_IN_INIT;

static struct { unsigned updates, finishes; uint64_t v0, v1; const void *upd_state; } GI;
void lzma_check_init(lzma_check_state *c, lzma_check t) { (void)c; (void)t; }
void lzma_check_update(lzma_check_state *c, lzma_check t, const uint8_t *b, size_t s)
{
	(void)t; ++GI.updates; GI.upd_state = c;
	if (s == 16) { memcpy(&GI.v0, b, 8); memcpy(&GI.v1, b + 8, 8); }
}
void lzma_check_finish(lzma_check_state *c, lzma_check t)
{
	(void)t; ++GI.finishes;
	/* digests are equal or differ in the first byte, nondeterministically */
	memset(c->buffer.u8, 0, 64);
	if (GI.finishes == 2 && !IN.dig_equal) c->buffer.u8[0] = 1;
}
uint32_t lzma_check_size(lzma_check t) { (void)t; return 4; } /* ghost digests: 4 bytes are enough to be equal or different */
void *lzma_alloc(size_t s, const lzma_allocator *a) { (void)s; (void)a; return NULL; }
void lzma_free(void *p, const lzma_allocator *a) { (void)p; (void)a; }

#include "liblzma/common/vli_size.c"
#include "liblzma/common/vli_decoder.c"
#include "liblzma/common/index_hash.c"

static lzma_index_hash H;
#define VMAX LZMA_VLI_MAX

static void setup(void)
{
	memset(&H, 0, sizeof(H)); memset(&GI, 0, sizeof(GI));
	H.sequence = IN.seq;
	H.blocks.blocks_size = IN.b.blocks_size; H.blocks.uncompressed_size = IN.b.unc; H.blocks.count = IN.b.count; H.blocks.index_list_size = IN.b.ils;
	H.records.blocks_size = IN.r.blocks_size; H.records.uncompressed_size = IN.r.unc; H.records.count = IN.r.count; H.records.index_list_size = IN.r.ils;
	H.remaining = IN.remaining; H.unpadded_size = IN.unp; H.uncompressed_size = IN.unc; H.pos = IN.pos; H.crc32 = IN.crc;
}

static bool wf(void)
{
	/* totals of a hash that has not reported an error yet */
	return IN.b.blocks_size <= VMAX && IN.b.unc <= VMAX && IN.b.ils <= (UINT64_C(1) << 35) && IN.b.count <= IN.b.ils / 2
		&& IN.r.blocks_size <= IN.b.blocks_size && IN.r.unc <= IN.b.unc && IN.r.ils <= IN.b.ils && IN.r.count <= IN.b.count;
}

void h_ihash_append(void)
{
	HAVOC(IN, struct in);
	ASSUME(wf() && IN.null_hash <= 1 && IN.seq <= SEQ_CRC32);
	setup();
	const lzma_ret r = lzma_index_hash_append(IN.null_hash ? NULL : &H, IN.a_unp, IN.a_unc);
	if (IN.null_hash || IN.seq != SEQ_BLOCK || IN.a_unp < 5 || IN.a_unp > UNPADDED_SIZE_MAX || IN.a_unc > VMAX) {
		ASSERT(r == LZMA_PROG_ERROR && GI.updates == 0 && H.blocks.count == IN.b.count && H.blocks.blocks_size == IN.b.blocks_size, "invalid call refused, nothing changed");
		REACH(iha_prog);
		return;
	}
	const uint64_t c4 = (IN.a_unp + 3) & ~UINT64_C(3);
	ASSERT(H.blocks.count == IN.b.count + 1 && H.blocks.blocks_size == IN.b.blocks_size + c4 && H.blocks.uncompressed_size == IN.b.unc + IN.a_unc
			&& H.blocks.index_list_size == IN.b.ils + spec_vli_size(IN.a_unp) + spec_vli_size(IN.a_unc), "Block totals advance by this Block's sizes");
	ASSERT(GI.updates == 1 && GI.upd_state == (const void *)&H.blocks.check && GI.v0 == IN.a_unp && GI.v1 == IN.a_unc, "both sizes hashed, Unpadded Size first");
	ASSERT(H.records.count == IN.r.count, "Record side untouched");
	const uint64_t nb = IN.b.blocks_size + c4, nu = IN.b.unc + IN.a_unc, nils = IN.b.ils + spec_vli_size(IN.a_unp) + spec_vli_size(IN.a_unc), nc = IN.b.count + 1;
	const uint64_t isz = (1 + spec_vli_size(nc) + nils + 4 + 3) & ~UINT64_C(3);
	const bool too_big = nb > VMAX || nu > VMAX || isz > (UINT64_C(1) << 34) || 12 + nb + isz + 12 > VMAX;
	ASSERT(r == (too_big ? LZMA_DATA_ERROR : LZMA_OK), "DATA_ERROR exactly when a format limit is exceeded");
	REACH_IF(too_big, iha_limit);
	REACH_IF(!too_big, iha_ok);
}

void h_ihash_decode(void)
{
	HAVOC(IN, struct in);
	ASSUME(wf() && IN.seq <= SEQ_CRC32 && IN.seq != SEQ_PADDING_INIT && IN.in_size <= 8 && IN.dig_equal <= 1);
	ASSUME(IN.seq == SEQ_PADDING || IN.seq == SEQ_CRC32 ? IN.pos <= 3 : IN.pos <= 8);
	ASSUME(IN.seq == SEQ_BLOCK ? IN.pos == 0 : true);
	ASSUME(IN.remaining <= VMAX && IN.unp <= VMAX && IN.unc <= VMAX);
	/* a VLI being resumed: the partial value occupies the 7*pos low bits (lzma_vli_decode's own precondition) */
	ASSUME(IN.seq != SEQ_COUNT || (IN.pos == 0 ? true : (IN.remaining >> (7 * IN.pos)) == 0));
	ASSUME(IN.seq != SEQ_UNPADDED || (IN.pos == 0 ? true : (IN.unp >> (7 * IN.pos)) == 0));
	ASSUME(IN.seq != SEQ_UNCOMPRESSED || (IN.pos == 0 ? true : (IN.unc >> (7 * IN.pos)) == 0));
	ASSUME(IN.seq != SEQ_UNCOMPRESSED || (IN.unp >= 5 && IN.unp <= UNPADDED_SIZE_MAX));
	ASSUME((IN.seq != SEQ_UNPADDED && IN.seq != SEQ_UNCOMPRESSED) || (IN.remaining >= 1 && IN.remaining <= IN.b.count - IN.r.count + (IN.b.count == IN.r.count)));
#ifdef IH_SEQ
	ASSUME(IN.seq == IH_SEQ);
#endif
	ASSUME(IN.in_size <= (IN.seq >= SEQ_PADDING ? 5 : 3));
	/* reachable states: Records decoded + Records still expected == Blocks decoded */
	ASSUME((IN.seq != SEQ_UNPADDED && IN.seq != SEQ_UNCOMPRESSED) || IN.r.count + IN.remaining == IN.b.count);
	ASSUME(IN.seq != SEQ_PADDING || IN.r.count == IN.b.count);
	setup();
#ifdef IH_SEQ
	H.sequence = IH_SEQ;
#endif
	size_t in_pos = 0;
	const lzma_ret r = lzma_index_hash_decode(&H, IN.inb, &in_pos, IN.in_size);
	if (IN.in_size == 0) { ASSERT(r == LZMA_BUF_ERROR, "no input: BUF_ERROR"); REACH(ihd_buf_error); return; }
	ASSERT(in_pos <= IN.in_size && r != LZMA_BUF_ERROR, "within the input");
	if (IN.seq == SEQ_BLOCK && IN.inb[0] != 0x00) { ASSERT(r == LZMA_DATA_ERROR, "Index Indicator must be 0x00"); REACH(ihd_bad_indicator); return; }
	if (IN.seq == SEQ_CRC32) {
		/* stored CRC bytes compared one by one */
		size_t k = 0; bool bad = false;
		for (; k < IN.in_size && IN.pos + k < 4; ++k)
			if (IN.inb[k] != (uint8_t)(IN.crc >> ((IN.pos + k) * 8))) { bad = true; break; }
		if (bad) { ASSERT(r == LZMA_DATA_ERROR, "stored Index CRC32 byte differs"); REACH(ihd_bad_crc); }
		else { ASSERT(r == (IN.pos + k == 4 ? LZMA_STREAM_END : LZMA_OK) && in_pos == k, "STREAM_END exactly after the 4th matching CRC byte"); REACH_IF(r == LZMA_STREAM_END, ihd_end); }
		return;
	}
	if (r == LZMA_STREAM_END || (r == LZMA_OK && H.sequence == SEQ_CRC32)) {
		/* the comparison stage was passed in this call */
		ASSERT(H.blocks.blocks_size == H.records.blocks_size && H.blocks.uncompressed_size == H.records.uncompressed_size
				&& H.blocks.index_list_size == H.records.index_list_size && H.blocks.count == H.records.count + 0, "Index accepted only if Record totals EQUAL the Block totals");
		ASSERT(GI.finishes == 2 && IN.dig_equal, "and the running hashes of Blocks and Records match");
		const size_t ncrc = r == LZMA_STREAM_END ? 4 : H.pos;
		ASSERT(ncrc <= in_pos, "CRC bytes are part of this call's input");
		ASSERT(H.crc32 == ghost_fold(IN.inb, in_pos - ncrc, IN.crc), "CRC32 covers exactly the Index bytes before the CRC field");
		REACH(ihd_compared);
		return;
	}
	if (r == LZMA_OK) {
		ASSERT(in_pos == IN.in_size, "OK means all input consumed");
		ASSERT(H.crc32 == ghost_fold(IN.inb, in_pos, IN.crc), "every consumed Index byte fed to the CRC once, in order, on every return path");
		REACH_IF(H.sequence == SEQ_UNPADDED && H.pos > 0, ihd_split_in_vli);
		REACH_IF(H.records.count == IN.r.count + 1, ihd_record_done);
	}
	if (IN.seq == SEQ_PADDING && IN.pos > 0 && IN.inb[0] != 0) { ASSERT(r == LZMA_DATA_ERROR, "non-zero Index Padding"); REACH(ihd_bad_padding); }
	/* records may never run ahead of the blocks */
	ASSERT(r == LZMA_DATA_ERROR || (H.records.blocks_size <= H.blocks.blocks_size && H.records.uncompressed_size <= H.blocks.uncompressed_size && H.records.index_list_size <= H.blocks.index_list_size),
			"after each Record the Record totals do not exceed the Block totals (else DATA_ERROR)");
}
