/* xz command line tool: file_io.c close/unlink ordering, sparse output, attribute copying (C17, C18, C19). */

/*@obligation
id: C17.io_close
props: C17 C18 C19
entry: h_io_close
flags: xz
unwind: 26
nondet_volatile: user_abort
fn: io_close io_close_dest io_close_src io_sync_dest io_unlink io_copy_attrs io_write_buf
sentinels: 5
expect: 40
replay: none
desc: io_close(pair, success) with EVERY system call free to fail: the source file is unlinked ONLY IF the caller reported success AND the pending sparse tail was materialised (lseek + 1-byte write succeeded) AND, with synchronous mode, both fsyncs succeeded AND close(dest) returned 0 BEFORE the unlink AND --keep was not given; unlink happens only after (l)stat still shows the same device/inode; on ANY failure of those steps the incomplete target is removed (after the same identity check) and the source stays; a user signal (user_abort, nondeterministic at every read) during the tail write counts as failure; stdout as destination is never closed/unlinked
assume: close/unlink/lseek/write/fsync/stat/lstat/fchown/fchmod/futimens/fcntl/free/message_* are stubs: return values nondeterministic (any fault sequence), each call recorded in a ghost event log; POSIX semantics of those calls are trusted
*/
/*@obligation
id: C18.is_sparse
props: C18 C04
entry: h_is_sparse
flags: xz
unwind: 1030
fn: is_sparse
sentinels: 2
expect: 5
replay: none
timeout: 900
desc: is_sparse(buf) is true iff all IO_BUFFER_SIZE (8192) bytes are zero: for an arbitrary buffer a true result implies the byte at an arbitrary index is zero; a buffer that is zero except one arbitrary byte at an arbitrary index is sparse iff that byte is zero (loop over the whole buffer, complete unwinding)
*/
/*@obligation
id: C18.io_write
props: C18 C17 C04
entry: h_io_write
flags: xz
unwind: 6
cbmc: --unwindset is_sparse.0:1030
nondet_volatile: user_abort
fn: io_write io_write_buf
sentinels: 4
expect: 30
replay: none
desc: io_write with ghost logical/physical offsets: a block is skipped (no system call, dest_pending_sparse += size) only when sparse mode is on, the block is a full IO_BUFFER_SIZE block and is all zero; before any real data is written a pending hole is skipped with lseek(SEEK_CUR, pending) and a failed seek is an error with nothing written; then exactly the block's bytes are written from their start; invariant file position + pending hole == bytes the caller has written so far; without sparse mode every byte goes through write
assume: write is a stub that accepts any positive amount <= requested or fails; lseek a stub that may fail
*/
/*@obligation
id: C19.copy_attrs
props: C19 C04
entry: h_copy_attrs
flags: xz
unwind: 26
fn: io_copy_attrs
sentinels: 2
expect: 10
replay: none
desc: io_copy_attrs: the mode passed to fchmod never grants a permission bit the source did not have and never contains setuid/setgid/sticky; when the group could not be set the group bits are reduced to what 'other' also has; access/modification times passed to futimens are the source's; failures only warn
*/

#include "verif.h"
/* the real translation unit first (it includes private.h, which has no include guard) */
#include "file_io.c"

/* ---------------- ghost event log and system call stubs ---------------- */
struct ev { int kind; int fd; long a; };
enum { EV_LSEEK = 1, EV_WRITE, EV_FSYNC, EV_CLOSE, EV_UNLINK_SRC, EV_UNLINK_DEST, EV_STAT, EV_FCHMOD, EV_FCHOWN, EV_FUTIMENS, EV_FCNTL, EV_FREE };
static struct { struct ev e[24]; unsigned n; mode_t chmod_mode; struct timespec tv[2]; unsigned warnings, errors; const void *wbuf0; size_t wtotal; unsigned wcalls; } GL;
static void log_ev(int kind, int fd, long a) { if (GL.n < 24) { GL.e[GL.n].kind = kind; GL.e[GL.n].fd = fd; GL.e[GL.n].a = a; } ++GL.n; }
static int first_ev(int kind, int fd) { for (unsigned i = 0; i < GL.n && i < 24; ++i) if (GL.e[i].kind == kind && (fd == -99 || GL.e[i].fd == fd)) return (int)i; return -1; }

struct in {
	uint8_t success, try_sparse, keep, sync, force;
	int32_t dest_fd_kind, src_fd_kind; /* 0: regular fd, 1: std fd, 2: -1 */
	int64_t pending;
	uint8_t r_lseek, r_write, r_fsync1, r_fsync2, r_close_dest, r_unlink, r_stat_src, r_stat_dest, same_src, same_dest, r_fchown1, r_fchown2, r_fchmod;
	uint32_t src_mode; uint32_t src_gid, dest_gid;
	size_t size, k; uint8_t v; size_t w_amount;
	uint32_t ev[3];
};
static struct in IN VERIF_IN_INIT;

static char SRC_NAME[] = "src", DEST_NAME_BUF[] = "dest";
#define FD_SRC 5
#define FD_DEST 6
#define FD_DIR 7

off_t lseek(int fd, off_t off, int whence) { log_ev(EV_LSEEK, fd, (long)off); (void)whence; return IN.r_lseek ? -1 : 0; }
ssize_t write(int fd, const void *buf, size_t n)
{
	log_ev(EV_WRITE, fd, (long)n);
	if (GL.wbuf0 == NULL) GL.wbuf0 = buf;
	if (IN.r_write) { errno = EIO; return -1; }
	/* first call may be short (any amount >= 1), later calls take everything: keeps the retry loop at two rounds */
	size_t a = IN.w_amount; if (a == 0 || a > n || GL.wcalls > 0) a = n;
	++GL.wcalls;
	GL.wtotal += a;
	return (ssize_t)a;
}
int fsync(int fd) { log_ev(EV_FSYNC, fd, 0); return fd == FD_DEST ? (IN.r_fsync1 ? -1 : 0) : (IN.r_fsync2 ? -1 : 0); }
int close(int fd) { log_ev(EV_CLOSE, fd, 0); return (fd == FD_DEST && IN.r_close_dest) ? -1 : 0; }
int unlink(const char *name) { log_ev(name == SRC_NAME ? EV_UNLINK_SRC : EV_UNLINK_DEST, 0, 0); return IN.r_unlink ? -1 : 0; }
static int stat_common(const char *name, struct stat *st)
{
	log_ev(EV_STAT, name == SRC_NAME, 0);
	memset(st, 0, sizeof(*st));
	const bool is_src = name == SRC_NAME;
	if (is_src ? IN.r_stat_src : IN.r_stat_dest) return -1;
	st->st_dev = 1; st->st_ino = (is_src ? (IN.same_src ? 100 : 101) : (IN.same_dest ? 200 : 201));
	return 0;
}
int stat(const char *restrict name, struct stat *restrict st) { return stat_common(name, st); }
int lstat(const char *restrict name, struct stat *restrict st) { return stat_common(name, st); }
int fchown(int fd, uid_t u, gid_t g) { log_ev(EV_FCHOWN, fd, (long)g); (void)u; return g == (gid_t)(-1) ? (IN.r_fchown1 ? -1 : 0) : (IN.r_fchown2 ? -1 : 0); }
int fchmod(int fd, mode_t m) { log_ev(EV_FCHMOD, fd, (long)m); GL.chmod_mode = m; return IN.r_fchmod ? -1 : 0; }
int futimens(int fd, const struct timespec tv[2]) { log_ev(EV_FUTIMENS, fd, 0); GL.tv[0] = tv[0]; GL.tv[1] = tv[1]; return 0; }
void free(void *p) { (void)p; log_ev(EV_FREE, 0, 0); }

/* xz helpers that file_io.c calls */
void message_warning(const char *fmt, ...) { (void)fmt; ++GL.warnings; }
void message_error(const char *fmt, ...) { (void)fmt; ++GL.errors; }
void message_fatal(const char *fmt, ...) { (void)fmt; __CPROVER_assume(0); }
void message_bug(void) { __CPROVER_assert(0, "message_bug() reached"); __CPROVER_assume(0); }
const char *tuklib_mask_nonprint(const char *s) { return s; }
void signals_block(void) {} void signals_unblock(void) {}
volatile sig_atomic_t user_abort;
bool opt_keep_original, opt_force, opt_synchronous = true, opt_stdout, opt_robust_dummy;
enum operation_mode opt_mode; enum format_type opt_format;
bool opt_robot, opt_ignore_check;
char *suffix_get_dest_name(const char *s) { (void)s; return NULL; }
int mytime_get_flush_timeout(void) { return 0; } void mytime_set_flush_time(void) {}
int mytime_dummy;
void *xrealloc(void *p, size_t s) { (void)p; (void)s; return NULL; }
void set_exit_status(enum exit_status_type s) { (void)s; }

static file_pair P;

static int fd_of(int kind, int regular, int std) { return kind == 0 ? regular : (kind == 1 ? std : -1); }

static void setup_pair(void)
{
	memset(&P, 0, sizeof(P)); memset(&GL, 0, sizeof(GL));
	P.src_name = SRC_NAME; P.dest_name = DEST_NAME_BUF;
	P.src_fd = fd_of(IN.src_fd_kind, FD_SRC, STDIN_FILENO); P.dest_fd = fd_of(IN.dest_fd_kind, FD_DEST, STDOUT_FILENO);
	P.dir_fd = FD_DIR;
	P.dest_try_sparse = IN.try_sparse; P.dest_pending_sparse = IN.pending;
	P.src_st.st_dev = 1; P.src_st.st_ino = 100; P.dest_st.st_dev = 1; P.dest_st.st_ino = 200;
	P.src_st.st_mode = IN.src_mode; P.src_st.st_gid = IN.src_gid; P.dest_st.st_gid = IN.dest_gid;
	P.src_st.st_atim.tv_sec = 11; P.src_st.st_atim.tv_nsec = 12; P.src_st.st_mtim.tv_sec = 13; P.src_st.st_mtim.tv_nsec = 14;
	opt_keep_original = IN.keep; opt_synchronous = IN.sync; opt_force = IN.force;
	restore_stdin_flags = false; restore_stdout_flags = false;
}

static bool wf_in(void)
{
	return IN.success <= 1 && IN.try_sparse <= 1 && IN.keep <= 1 && IN.sync <= 1 && IN.force <= 1
		&& IN.dest_fd_kind >= 0 && IN.dest_fd_kind <= 2 && IN.src_fd_kind >= 0 && IN.src_fd_kind <= 2
		&& IN.pending >= 0 && IN.pending <= ((int64_t)1 << 61)
		&& IN.r_lseek <= 1 && IN.r_write <= 1 && IN.r_fsync1 <= 1 && IN.r_fsync2 <= 1 && IN.r_close_dest <= 1 && IN.r_unlink <= 1
		&& IN.r_stat_src <= 1 && IN.r_stat_dest <= 1 && IN.same_src <= 1 && IN.same_dest <= 1 && IN.r_fchown1 <= 1 && IN.r_fchown2 <= 1 && IN.r_fchmod <= 1
		/* sparse mode is only ever enabled for a regular destination file */
		&& (!IN.try_sparse || IN.dest_fd_kind != 2);
}

void h_io_close(void)
{
	HAVOC(IN, struct in);
	ASSUME(wf_in());
	setup_pair();
	io_close(&P, IN.success);

	const bool dest_is_file = IN.dest_fd_kind == 0, src_is_file = IN.src_fd_kind == 0;
	const int i_unlink_src = first_ev(EV_UNLINK_SRC, -99), i_unlink_dest = first_ev(EV_UNLINK_DEST, -99);
	const int i_close_dest = first_ev(EV_CLOSE, FD_DEST);
	const bool tail = IN.success && IN.try_sparse && IN.pending > 0;
	/* what must all have gone well for the data to be safely in the target */
	bool good = IN.success;
	if (tail) good = good && !IN.r_lseek && first_ev(EV_WRITE, -99) >= 0 && !IN.r_write;
	if (good && dest_is_file && IN.sync) good = good && !IN.r_fsync1 && !IN.r_fsync2;
	if (dest_is_file) good = good && !IN.r_close_dest;

	if (i_unlink_src >= 0) {
		ASSERT(good, "source removed only after success, materialised sparse tail, successful fsyncs (synchronous mode) and successful close of the target");
		ASSERT(!IN.keep && src_is_file, "source removed only without --keep and only for a real source file");
		ASSERT(!dest_is_file || (i_close_dest >= 0 && i_close_dest < i_unlink_src), "close(dest) precedes unlink(source)");
		ASSERT(!IN.r_stat_src && IN.same_src, "source removed only if (l)stat still shows the file we opened");
		REACH(close_src_removed);
	}
	if (good && src_is_file && !IN.keep && !IN.r_stat_src && IN.same_src)
		ASSERT(i_unlink_src >= 0, "on success the source is removed");
	if (!good && dest_is_file) {
		ASSERT(i_unlink_src < 0, "any failure keeps the source file");
		if (!IN.r_stat_dest && IN.same_dest) { ASSERT(i_unlink_dest >= 0, "any failure removes the incomplete target (after the identity check)"); REACH(close_dest_removed); }
		else ASSERT(i_unlink_dest < 0, "a target that was replaced by another file is not removed");
	}
	if (good && dest_is_file) ASSERT(i_unlink_dest < 0, "a complete target is never removed");
	if (!dest_is_file) ASSERT(i_close_dest < 0 && i_unlink_dest < 0, "stdout / no destination: never closed or unlinked");
	if (tail && !IN.r_lseek) {
		ASSERT(GL.e[0].kind == EV_LSEEK && GL.e[0].a == IN.pending - 1 && GL.e[1].kind == EV_WRITE && GL.e[1].a == 1, "sparse tail: seek pending-1 then write one zero byte (file gets its full length)");
		REACH(close_tail);
	}
	if (dest_is_file && IN.success && !(tail && (IN.r_lseek || IN.r_write)) && IN.sync)
		ASSERT(first_ev(EV_FSYNC, FD_DEST) >= 0 && first_ev(EV_FSYNC, FD_DEST) < i_close_dest, "synchronous mode: fsync before close");
	REACH_IF(tail && IN.r_write && i_unlink_dest >= 0, close_tail_failed_cleanup);
	REACH_IF(!IN.success, close_failure_path);
}

/* ---------------- is_sparse ---------------- */
static io_buf BUF;
void h_is_sparse(void)
{
	HAVOC(IN, struct in);
	HAVOC(BUF, io_buf);
	ASSUME(IN.k < IO_BUFFER_SIZE);
	if (is_sparse(&BUF)) { ASSERT(BUF.u8[IN.k] == 0, "a block reported sparse has no non-zero byte anywhere in its 8192 bytes"); REACH(sparse_true); }
	memset(&BUF, 0, sizeof(BUF));
	BUF.u8[IN.k] = IN.v;
	ASSERT(is_sparse(&BUF) == (IN.v == 0), "a block with a single non-zero byte at any index is not sparse; the all-zero block is");
	REACH_IF(IN.v != 0, sparse_false);
}

/* ---------------- io_write ---------------- */
void h_io_write(void)
{
	HAVOC(IN, struct in);
	ASSUME(wf_in() && IN.size <= IO_BUFFER_SIZE && IN.dest_fd_kind == 0);
	ASSUME(IN.size == 0 || IN.size == 100 || IN.size == IO_BUFFER_SIZE);
	ASSUME(IN.k < IO_BUFFER_SIZE);
	setup_pair();
	memset(&BUF, 0, sizeof(BUF));
	BUF.u8[IN.k] = IN.v;                         /* zero block, or one non-zero byte somewhere */
	const bool zero_block = IN.v == 0;
	const bool err = io_write(&P, &BUF, IN.size);
	const bool skip = IN.try_sparse && IN.size == IO_BUFFER_SIZE && zero_block;
	if (IN.try_sparse && IN.size == 0) { ASSERT(!err && GL.n == 0 && P.dest_pending_sparse == IN.pending, "empty write changes nothing"); return; }
	if (skip) {
		ASSERT(!err && GL.n == 0 && P.dest_pending_sparse == IN.pending + (off_t)IO_BUFFER_SIZE, "all-zero full block: recorded as a hole, no system call");
		REACH(write_skipped);
		return;
	}
	unsigned first_write = 0;
	if (IN.try_sparse && IN.pending > 0) {
		ASSERT(GL.n >= 1 && GL.e[0].kind == EV_LSEEK && GL.e[0].a == IN.pending && GL.e[0].fd == FD_DEST, "pending hole skipped with lseek before real data");
		if (IN.r_lseek) { ASSERT(err && GL.n == 1 && P.dest_pending_sparse == IN.pending, "failed seek: error, nothing written, hole still pending"); REACH(write_seek_failed); return; }
		ASSERT(P.dest_pending_sparse == 0, "hole consumed");
		first_write = 1;
		REACH(write_after_hole);
	} else {
		ASSERT(P.dest_pending_sparse == IN.pending, "no hole handling");
	}
	if (IN.size > 0) {
		ASSERT(GL.n > first_write && GL.e[first_write].kind == EV_WRITE && GL.e[first_write].fd == FD_DEST && GL.e[first_write].a == (long)IN.size && GL.wbuf0 == (const void *)BUF.u8, "data written from the start of the block, full size requested");
		if (!err) { ASSERT(GL.wtotal == IN.size, "on success exactly size bytes were accepted by write (short writes retried)"); REACH(write_ok); }
		else ASSERT(IN.r_write, "error only if write failed");
	}
}

/* ---------------- io_copy_attrs ---------------- */
void h_copy_attrs(void)
{
	HAVOC(IN, struct in);
	ASSUME(wf_in() && IN.dest_fd_kind == 0 && IN.src_gid != UINT32_MAX); /* (gid_t)-1 means 'leave unchanged' in fchown */
	setup_pair();
	io_copy_attrs(&P);
	const int i = first_ev(EV_FCHMOD, FD_DEST);
	ASSERT(i >= 0, "permissions are set");
	const mode_t m = GL.chmod_mode, s = IN.src_mode;
	ASSERT((m & ~(s & 0777)) == 0, "target never gets a permission bit the source lacks; no setuid/setgid/sticky");
	const bool group_failed = IN.src_gid != IN.dest_gid && IN.r_fchown2;
	if (!group_failed) { ASSERT(m == (s & 0777), "same permissions as the source"); REACH(attrs_same); }
	else {
		const mode_t go = ((s & 0070) >> 3) & (s & 0007);
		ASSERT(m == ((s & 0700) | (go << 3) | go), "group could not be set: group bits limited to what 'other' has too");
		REACH(attrs_reduced);
	}
	ASSERT(first_ev(EV_FUTIMENS, FD_DEST) >= 0 && GL.tv[0].tv_sec == 11 && GL.tv[0].tv_nsec == 12 && GL.tv[1].tv_sec == 13 && GL.tv[1].tv_nsec == 14, "timestamps copied from the source");
	ASSERT(GL.errors == 0, "attribute failures only warn");
}

