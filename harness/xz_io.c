/* xz command line tool: file_io.c close/unlink ordering, sparse output, attribute copying (C17, C18, C19). */

/*@obligation
id: C17.io_close
props: C17 C18 C19
entry: h_io_close
flags: xz
unwind: 26
nondet_volatile: user_abort
fn: io_close io_close_dest io_close_src io_sync_dest io_unlink io_copy_attrs io_write_buf
sentinels: 5
expect: 40
replay: native
desc: io_close(pair, success) with EVERY system call free to fail: the source file is unlinked ONLY IF the caller reported success AND the pending sparse tail was materialised (lseek + 1-byte write succeeded) AND, with synchronous mode, both fsyncs succeeded AND close(dest) returned 0 BEFORE the unlink AND --keep was not given; unlink happens only after (l)stat still shows the same device/inode; on ANY failure of those steps the incomplete target is removed (after the same identity check) and the source stays; a user signal (user_abort, nondeterministic at every read) during the tail write counts as failure; stdout as destination is never closed/unlinked
assume: close/unlink/lseek/write/fsync/stat/lstat/fchown/fchmod/futimens/fcntl/free/message_* are stubs: return values nondeterministic (any fault sequence), each call recorded in a ghost event log; POSIX semantics of those calls are trusted
*/
/*@obligation
id: C18.is_sparse
props: C18 C04
entry: h_is_sparse
flags: xz
unwind: 1030
fn: is_sparse
sentinels: 2
expect: 5
replay: native
timeout: 900
desc: is_sparse(buf) is true iff all IO_BUFFER_SIZE (8192) bytes are zero: for an arbitrary buffer a true result implies the byte at an arbitrary index is zero; a buffer that is zero except one arbitrary byte at an arbitrary index is sparse iff that byte is zero (loop over the whole buffer, complete unwinding)
*/
/*@obligation
id: C18.io_write
props: C18 C17 C04
entry: h_io_write
flags: xz
unwind: 6
cbmc: --unwindset is_sparse.0:1030
nondet_volatile: user_abort
fn: io_write io_write_buf
sentinels: 4
expect: 30
replay: native
desc: io_write with ghost logical/physical offsets: a block is skipped (no system call, dest_pending_sparse += size) only when sparse mode is on, the block is a full IO_BUFFER_SIZE block and is all zero; before any real data is written a pending hole is skipped with lseek(SEEK_CUR, pending) and a failed seek is an error with nothing written; then exactly the block's bytes are written from their start; invariant file position + pending hole == bytes the caller has written so far; without sparse mode every byte goes through write
assume: write is a stub that accepts any positive amount <= requested or fails; lseek a stub that may fail
*/
/*@obligation
id: C19.copy_attrs
props: C19 C04
entry: h_copy_attrs
flags: xz
unwind: 26
fn: io_copy_attrs
sentinels: 2
expect: 10
replay: native
desc: io_copy_attrs: the mode passed to fchmod never grants a permission bit the source did not have and never contains setuid/setgid/sticky; when the group could not be set the group bits are reduced to what 'other' also has; access/modification times passed to futimens are the source's; failures only warn
*/

/*@obligation
id: C19.open_dest
props: C19 C17 C18
entry: h_open_dest
flags: xz
unwind: 26
fn: io_open_dest_real
sentinels: 6
expect: 30
replay: native
desc: io_open_dest_real with every system call free to fail: a destination FILE is only ever created with O_CREAT|O_EXCL (never O_TRUNC, never opened without O_EXCL) and mode 0600, so an existing file is never overwritten unless --force asked for it -- and then it is removed with unlink BEFORE the exclusive create, a failed unlink (other than ENOENT) aborts; with --stdout or standard input as source nothing is opened or unlinked and the destination is fd 1; on every error path no destination fd is left behind, the directory fd is closed, and true is returned; sparse mode is enabled only when decompressing with sparse allowed and the target is a regular file we created or a regular-file stdout positioned at its end (append mode: seek to the end and clear O_APPEND, to be restored at close)
assume: open/unlink/fstat/fcntl/lseek/close/free/xstrdup/dirname/suffix_get_dest_name are stubs with nondeterministic results recorded in the ghost event log
*/

/*@obligation
id: C19.open_src
props: C19 C17
entry: h_open_src
flags: xz
unwind: 26
nondet_volatile: user_abort
fn: io_open_src_real io_wait
sentinels: 8
expect: 20
replay: native
desc: io_open_src_real for every file kind/mode/link count/flag combination and every failing system call: the source is opened exactly once, read-only (never O_CREAT/O_TRUNC/O_WRONLY/O_RDWR), with O_NOCTTY|O_NONBLOCK, and with O_NOFOLLOW exactly when none of --stdout/--force/--keep is given; it is ACCEPTED (false returned) only if open and fstat succeeded, it is not a directory, it is a regular file unless writing to stdout, and -- when replacing files without --force/--keep -- it has no setuid/setgid/sticky bit and at most one hard link; pair->src_st is what fstat reported (the identity/mode later used for unlink and attribute copying); conversely an ordinary regular file (no special bits, one link) is always accepted; a refused symbolic link (ELOOP + lstat says link) is a warning, other open failures are errors; every refusal after a successful open closes the descriptor; standard input is never opened, closed or refused
assume: open/fstat/lstat/poll/posix_fadvise/fcntl/close are stubs with nondeterministic results; O_NOFOLLOW semantics of the kernel are trusted
*/

#include "verif.h"
#ifdef VERIF_NATIVE
/* native replay: the system-call stubs below must not replace libc's functions inside the replay program (stdio, the sanitizer
 * runtime), so they -- and the calls in file_io.c -- are renamed at source level; stat/lstat/fstat are function-like so that
 * 'struct stat' stays what it is */
#include <stdlib.h>
#include <sys/types.h>
#include <sys/stat.h>
#include <fcntl.h>
#include <unistd.h>
#include <poll.h>
#include <libgen.h>
#define open verif_open
#define close verif_close
#define unlink verif_unlink
#define lseek verif_lseek
#define write verif_write
#define fsync verif_fsync
#define fchown verif_fchown
#define fchmod verif_fchmod
#define futimens verif_futimens
#define fcntl verif_fcntl
#define poll verif_poll
#define posix_fadvise verif_posix_fadvise
#define free verif_free
#define dirname verif_dirname
#define stat(a, b) verif_stat(a, b)
#define lstat(a, b) verif_lstat(a, b)
#define fstat(a, b) verif_fstat(a, b)
/* prototypes of the renamed stubs (the macros above rename these too) */
int open(const char *path, int flags, ...); int close(int fd); int unlink(const char *name); off_t lseek(int fd, off_t off, int whence);
ssize_t write(int fd, const void *buf, size_t n); int fsync(int fd); int fchown(int fd, uid_t u, gid_t g); int fchmod(int fd, mode_t m);
int futimens(int fd, const struct timespec tv[2]); int fcntl(int fd, int cmd, ...); int poll(struct pollfd *fds, nfds_t n, int timeout);
int posix_fadvise(int fd, off_t a, off_t b, int advice); void free(void *p); char *dirname(char *p);
int stat(const char *restrict name, struct stat *restrict st); int lstat(const char *restrict name, struct stat *restrict st); int fstat(int fd, struct stat *st);
#endif
/* the real translation unit first (it includes private.h, which has no include guard) */
const char stdin_filename[] = "(stdin)"; /* complete type before args.h declares it (CBMC compares addresses of incomplete arrays unequal) */
#include "file_io.c"
#include <stdarg.h>
#include <libgen.h>

/* ---------------- ghost event log and system call stubs ---------------- */
struct ev { int kind; int fd; long a; };
enum { EV_LSEEK = 1, EV_WRITE, EV_FSYNC, EV_CLOSE, EV_UNLINK_SRC, EV_UNLINK_DEST, EV_STAT, EV_FCHMOD, EV_FCHOWN, EV_FUTIMENS, EV_FCNTL, EV_FREE };
static struct { struct ev e[24]; unsigned n; mode_t chmod_mode; struct timespec tv[2]; unsigned warnings, errors; const void *wbuf0; size_t wtotal; unsigned wcalls; } GL;
static void log_ev(int kind, int fd, long a) { if (GL.n < 24) { GL.e[GL.n].kind = kind; GL.e[GL.n].fd = fd; GL.e[GL.n].a = a; } ++GL.n; }
static int first_ev(int kind, int fd) { for (unsigned i = 0; i < GL.n && i < 24; ++i) if (GL.e[i].kind == kind && (fd == -99 || GL.e[i].fd == fd)) return (int)i; return -1; }

struct in {
	uint8_t success, try_sparse, keep, sync, force;
	int32_t dest_fd_kind, src_fd_kind; /* 0: regular fd, 1: std fd, 2: -1 */
	int64_t pending;
	uint8_t r_lseek, r_write, r_fsync1, r_fsync2, r_close_dest, r_unlink, r_stat_src, r_stat_dest, same_src, same_dest, r_fchown1, r_fchown2, r_fchmod;
	uint32_t src_mode; uint32_t src_gid, dest_gid;
	size_t size, k; uint8_t v; size_t w_amount;
	uint32_t ev[3];
};
static struct in IN VERIF_IN_INIT;

struct in2 { uint8_t r_open_dir, r_open_dest, r_fstat, dest_isreg, r_fcntl_get, r_fcntl_set, name_null, to_stdout, src_stdin, try_sparse_opt, mode_decompress, r_unlink_enoent, r_lseek_end; int32_t stdout_flags; int64_t cur_pos, st_size; };
#ifndef VERIF_IN2_INIT
#define VERIF_IN2_INIT
#define VERIF_IN3_INIT_DEFAULT
#endif
#ifndef VERIF_IN3_INIT
#define VERIF_IN3_INIT
#endif
static struct in2 IN2 VERIF_IN2_INIT;
struct in3 { uint8_t to_stdout, force, keep, src_stdin, r_open, open_eloop, r_lstat, lstat_islnk, r_fstat, r_poll, poll_hup, list_mode; uint32_t mode, nlink; };
static struct in3 IN3 VERIF_IN3_INIT;
static bool g_open_src_mode;  /* open/fstat/lstat describe the SOURCE file in the io_open_src_real obligation */
static bool g_open_dest_mode; /* lseek on stdout reports positions only in the io_open_dest_real obligation */
static char SRC_NAME[] = "src", DEST_NAME_BUF[] = "dest";
#define FD_SRC 5
#define FD_DEST 6
#define FD_DIR 7

off_t lseek(int fd, off_t off, int whence)
{
	log_ev(EV_LSEEK, fd, (long)off);
	if (g_open_dest_mode && fd == STDOUT_FILENO) return whence == SEEK_END ? (IN2.r_lseek_end ? -1 : IN2.st_size) : IN2.cur_pos;
	return IN.r_lseek ? -1 : 0;
}
ssize_t write(int fd, const void *buf, size_t n)
{
	log_ev(EV_WRITE, fd, (long)n);
	if (GL.wbuf0 == NULL) GL.wbuf0 = buf;
	if (IN.r_write) { errno = EIO; return -1; }
	/* first call may be short (any amount >= 1), later calls take everything: keeps the retry loop at two rounds */
	size_t a = IN.w_amount; if (a == 0 || a > n || GL.wcalls > 0) a = n;
	++GL.wcalls;
	GL.wtotal += a;
	return (ssize_t)a;
}
int fsync(int fd) { log_ev(EV_FSYNC, fd, 0); return fd == FD_DEST ? (IN.r_fsync1 ? -1 : 0) : (IN.r_fsync2 ? -1 : 0); }
int close(int fd) { log_ev(EV_CLOSE, fd, 0); return (fd == FD_DEST && IN.r_close_dest) ? -1 : 0; }
int unlink(const char *name) { log_ev(name == SRC_NAME ? EV_UNLINK_SRC : EV_UNLINK_DEST, 0, 0); if (IN.r_unlink) { errno = IN2.r_unlink_enoent ? ENOENT : EACCES; return -1; } return 0; }
static int stat_common(const char *name, struct stat *st)
{
	log_ev(EV_STAT, name == SRC_NAME, 0);
	memset(st, 0, sizeof(*st));
	if (g_open_src_mode) { if (IN3.r_lstat) return -1; st->st_mode = IN3.lstat_islnk ? S_IFLNK : S_IFREG; return 0; }
	const bool is_src = name == SRC_NAME;
	if (is_src ? IN.r_stat_src : IN.r_stat_dest) return -1;
	st->st_dev = 1; st->st_ino = (is_src ? (IN.same_src ? 100 : 101) : (IN.same_dest ? 200 : 201));
	return 0;
}
int stat(const char *restrict name, struct stat *restrict st) { return stat_common(name, st); }
int lstat(const char *restrict name, struct stat *restrict st) { return stat_common(name, st); }
int fchown(int fd, uid_t u, gid_t g) { log_ev(EV_FCHOWN, fd, (long)g); (void)u; return g == (gid_t)(-1) ? (IN.r_fchown1 ? -1 : 0) : (IN.r_fchown2 ? -1 : 0); }
int fchmod(int fd, mode_t m) { log_ev(EV_FCHMOD, fd, (long)m); GL.chmod_mode = m; return IN.r_fchmod ? -1 : 0; }
int futimens(int fd, const struct timespec tv[2]) { log_ev(EV_FUTIMENS, fd, 0); GL.tv[0] = tv[0]; GL.tv[1] = tv[1]; return 0; }
void free(void *p) { (void)p; log_ev(EV_FREE, 0, 0); }

static struct { unsigned opens; int open_flags[2]; mode_t open_mode[2]; const char *open_path[2]; unsigned fcntls; int setfl_flags; } GOP;
static char DIRNAME_BUF[] = ".";
int open(const char *path, int flags, ...)
{
	const unsigned k = GOP.opens++;
	if (k < 2) { GOP.open_flags[k] = flags; GOP.open_path[k] = path; GOP.open_mode[k] = 0; if (flags & O_CREAT) { va_list ap; va_start(ap, flags); GOP.open_mode[k] = va_arg(ap, mode_t); va_end(ap); } }
	log_ev(100, flags, 0);
	if (g_open_src_mode) { if (IN3.r_open) { errno = IN3.open_eloop ? ELOOP : EACCES; return -1; } return FD_SRC; }
	const bool is_dir = (flags & O_DIRECTORY) != 0;
	if (is_dir ? IN2.r_open_dir : IN2.r_open_dest) { errno = EACCES; return -1; }
	return is_dir ? FD_DIR : FD_DEST;
}
int poll(struct pollfd *fds, nfds_t n, int timeout) { (void)n; (void)timeout; if (IN3.r_poll) { errno = EIO; return -1; } fds[0].revents = IN3.poll_hup ? POLLHUP : POLLIN; fds[1].revents = 0; return 1; }
int posix_fadvise(int fd, off_t a, off_t b, int advice) { (void)fd; (void)a; (void)b; (void)advice; return 0; }
int fstat(int fd, struct stat *st) { log_ev(EV_STAT, fd, 1); memset(st, 0, sizeof(*st));
	if (g_open_src_mode) { if (IN3.r_fstat) return -1; st->st_mode = IN3.mode; st->st_nlink = IN3.nlink; st->st_dev = 1; st->st_ino = 100; return 0; }
	if (IN2.r_fstat) return -1; st->st_mode = IN2.dest_isreg ? S_IFREG : S_IFIFO; st->st_size = IN2.st_size; st->st_dev = 1; st->st_ino = 200; return 0; }
int fcntl(int fd, int cmd, ...)
{
	++GOP.fcntls; log_ev(EV_FCNTL, fd, cmd);
	if (cmd == F_GETFL) return IN2.r_fcntl_get ? -1 : IN2.stdout_flags;
	va_list ap; va_start(ap, cmd); GOP.setfl_flags = va_arg(ap, int); va_end(ap);
	return IN2.r_fcntl_set ? -1 : 0;
}
char *xstrdup(const char *s) { (void)s; return DIRNAME_BUF; }
char *dirname(char *p) { return p; }

/* xz helpers that file_io.c calls */
void message_warning(const char *fmt, ...) { (void)fmt; ++GL.warnings; }
void message_error(const char *fmt, ...) { (void)fmt; ++GL.errors; }
#ifdef VERIF_NATIVE
void message_fatal(const char *fmt, ...) { (void)fmt; puts("message_fatal"); exit(0); }
void message_bug(void) { puts("message_bug"); exit(1); }
#else
void message_fatal(const char *fmt, ...) { (void)fmt; __CPROVER_assume(0); }
void message_bug(void) { __CPROVER_assert(0, "message_bug() reached"); __CPROVER_assume(0); }
#endif
const char *tuklib_mask_nonprint(const char *s) { return s; }
void signals_block(void) {} void signals_unblock(void) {}
volatile sig_atomic_t user_abort;
bool opt_keep_original, opt_force, opt_synchronous = true, opt_stdout, opt_robust_dummy;
enum operation_mode opt_mode; enum format_type opt_format;
bool opt_robot, opt_ignore_check;
char *suffix_get_dest_name(const char *s) { (void)s; return IN2.name_null ? NULL : DEST_NAME_BUF; }
int mytime_get_flush_timeout(void) { return 0; } void mytime_set_flush_time(void) {}
int mytime_dummy;
void *xrealloc(void *p, size_t s) { (void)p; (void)s; return NULL; }
void set_exit_status(enum exit_status_type s) { (void)s; }

#ifdef VERIF_NATIVE
/* referenced by parts of file_io.c that no harness reaches */
void tuklib_open_stdxxx(int status) { (void)status; }
#endif
static file_pair P;

static int fd_of(int kind, int regular, int std) { return kind == 0 ? regular : (kind == 1 ? std : -1); }

static void setup_pair(void)
{
	memset(&P, 0, sizeof(P)); memset(&GL, 0, sizeof(GL));
	P.src_name = SRC_NAME; P.dest_name = DEST_NAME_BUF;
	P.src_fd = fd_of(IN.src_fd_kind, FD_SRC, STDIN_FILENO); P.dest_fd = fd_of(IN.dest_fd_kind, FD_DEST, STDOUT_FILENO);
	P.dir_fd = FD_DIR;
	P.dest_try_sparse = IN.try_sparse; P.dest_pending_sparse = IN.pending;
	P.src_st.st_dev = 1; P.src_st.st_ino = 100; P.dest_st.st_dev = 1; P.dest_st.st_ino = 200;
	P.src_st.st_mode = IN.src_mode; P.src_st.st_gid = IN.src_gid; P.dest_st.st_gid = IN.dest_gid;
	P.src_st.st_atim.tv_sec = 11; P.src_st.st_atim.tv_nsec = 12; P.src_st.st_mtim.tv_sec = 13; P.src_st.st_mtim.tv_nsec = 14;
	opt_keep_original = IN.keep; opt_synchronous = IN.sync; opt_force = IN.force;
	restore_stdin_flags = false; restore_stdout_flags = false;
}

static bool wf_in(void)
{
	return IN.success <= 1 && IN.try_sparse <= 1 && IN.keep <= 1 && IN.sync <= 1 && IN.force <= 1
		&& IN.dest_fd_kind >= 0 && IN.dest_fd_kind <= 2 && IN.src_fd_kind >= 0 && IN.src_fd_kind <= 2
		&& IN.pending >= 0 && IN.pending <= ((int64_t)1 << 61)
		&& IN.r_lseek <= 1 && IN.r_write <= 1 && IN.r_fsync1 <= 1 && IN.r_fsync2 <= 1 && IN.r_close_dest <= 1 && IN.r_unlink <= 1
		&& IN.r_stat_src <= 1 && IN.r_stat_dest <= 1 && IN.same_src <= 1 && IN.same_dest <= 1 && IN.r_fchown1 <= 1 && IN.r_fchown2 <= 1 && IN.r_fchmod <= 1
		/* sparse mode is only ever enabled for a regular destination file */
		&& (!IN.try_sparse || IN.dest_fd_kind != 2);
}

void h_io_close(void)
{
	HAVOC(IN, struct in);
	ASSUME(wf_in());
	setup_pair();
	io_close(&P, IN.success);

	const bool dest_is_file = IN.dest_fd_kind == 0, src_is_file = IN.src_fd_kind == 0;
	const int i_unlink_src = first_ev(EV_UNLINK_SRC, -99), i_unlink_dest = first_ev(EV_UNLINK_DEST, -99);
	const int i_close_dest = first_ev(EV_CLOSE, FD_DEST);
	const bool tail = IN.success && IN.try_sparse && IN.pending > 0;
	/* what must all have gone well for the data to be safely in the target */
	bool good = IN.success;
	if (tail) good = good && !IN.r_lseek && first_ev(EV_WRITE, -99) >= 0 && !IN.r_write;
	if (good && dest_is_file && IN.sync) good = good && !IN.r_fsync1 && !IN.r_fsync2;
	if (dest_is_file) good = good && !IN.r_close_dest;

	if (i_unlink_src >= 0) {
		ASSERT(good, "source removed only after success, materialised sparse tail, successful fsyncs (synchronous mode) and successful close of the target");
		ASSERT(!IN.keep && src_is_file, "source removed only without --keep and only for a real source file");
		ASSERT(!dest_is_file || (i_close_dest >= 0 && i_close_dest < i_unlink_src), "close(dest) precedes unlink(source)");
		ASSERT(!IN.r_stat_src && IN.same_src, "source removed only if (l)stat still shows the file we opened");
		REACH(close_src_removed);
	}
	if (good && src_is_file && !IN.keep && !IN.r_stat_src && IN.same_src)
		ASSERT(i_unlink_src >= 0, "on success the source is removed");
	if (!good && dest_is_file) {
		ASSERT(i_unlink_src < 0, "any failure keeps the source file");
		if (!IN.r_stat_dest && IN.same_dest) { ASSERT(i_unlink_dest >= 0, "any failure removes the incomplete target (after the identity check)"); REACH(close_dest_removed); }
		else ASSERT(i_unlink_dest < 0, "a target that was replaced by another file is not removed");
	}
	if (good && dest_is_file) ASSERT(i_unlink_dest < 0, "a complete target is never removed");
	if (!dest_is_file) ASSERT(i_close_dest < 0 && i_unlink_dest < 0, "stdout / no destination: never closed or unlinked");
	if (tail && !IN.r_lseek) {
		ASSERT(GL.e[0].kind == EV_LSEEK && GL.e[0].a == IN.pending - 1 && GL.e[1].kind == EV_WRITE && GL.e[1].a == 1, "sparse tail: seek pending-1 then write one zero byte (file gets its full length)");
		REACH(close_tail);
	}
	if (dest_is_file && IN.success && !(tail && (IN.r_lseek || IN.r_write)) && IN.sync)
		ASSERT(first_ev(EV_FSYNC, FD_DEST) >= 0 && first_ev(EV_FSYNC, FD_DEST) < i_close_dest, "synchronous mode: fsync before close");
	REACH_IF(tail && IN.r_write && i_unlink_dest >= 0, close_tail_failed_cleanup);
	REACH_IF(!IN.success, close_failure_path);
}

/* ---------------- is_sparse ---------------- */
static io_buf BUF;
void h_is_sparse(void)
{
	HAVOC(IN, struct in);
	HAVOC(BUF, io_buf);
	ASSUME(IN.k < IO_BUFFER_SIZE);
	if (is_sparse(&BUF)) { ASSERT(BUF.u8[IN.k] == 0, "a block reported sparse has no non-zero byte anywhere in its 8192 bytes"); REACH(sparse_true); }
	memset(&BUF, 0, sizeof(BUF));
	BUF.u8[IN.k] = IN.v;
	ASSERT(is_sparse(&BUF) == (IN.v == 0), "a block with a single non-zero byte at any index is not sparse; the all-zero block is");
	REACH_IF(IN.v != 0, sparse_false);
}

/* ---------------- io_write ---------------- */
void h_io_write(void)
{
	HAVOC(IN, struct in);
	ASSUME(wf_in() && IN.size <= IO_BUFFER_SIZE && IN.dest_fd_kind == 0);
	ASSUME(IN.size == 0 || IN.size == 100 || IN.size == IO_BUFFER_SIZE);
	ASSUME(IN.k < IO_BUFFER_SIZE);
	setup_pair();
	memset(&BUF, 0, sizeof(BUF));
	BUF.u8[IN.k] = IN.v;                         /* zero block, or one non-zero byte somewhere */
	const bool zero_block = IN.v == 0;
	const bool err = io_write(&P, &BUF, IN.size);
	const bool skip = IN.try_sparse && IN.size == IO_BUFFER_SIZE && zero_block;
	if (IN.try_sparse && IN.size == 0) { ASSERT(!err && GL.n == 0 && P.dest_pending_sparse == IN.pending, "empty write changes nothing"); return; }
	if (skip) {
		ASSERT(!err && GL.n == 0 && P.dest_pending_sparse == IN.pending + (off_t)IO_BUFFER_SIZE, "all-zero full block: recorded as a hole, no system call");
		REACH(write_skipped);
		return;
	}
	unsigned first_write = 0;
	if (IN.try_sparse && IN.pending > 0) {
		ASSERT(GL.n >= 1 && GL.e[0].kind == EV_LSEEK && GL.e[0].a == IN.pending && GL.e[0].fd == FD_DEST, "pending hole skipped with lseek before real data");
		if (IN.r_lseek) { ASSERT(err && GL.n == 1 && P.dest_pending_sparse == IN.pending, "failed seek: error, nothing written, hole still pending"); REACH(write_seek_failed); return; }
		ASSERT(P.dest_pending_sparse == 0, "hole consumed");
		first_write = 1;
		REACH(write_after_hole);
	} else {
		ASSERT(P.dest_pending_sparse == IN.pending, "no hole handling");
	}
	if (IN.size > 0) {
		ASSERT(GL.n > first_write && GL.e[first_write].kind == EV_WRITE && GL.e[first_write].fd == FD_DEST && GL.e[first_write].a == (long)IN.size && GL.wbuf0 == (const void *)BUF.u8, "data written from the start of the block, full size requested");
		if (!err) { ASSERT(GL.wtotal == IN.size, "on success exactly size bytes were accepted by write (short writes retried)"); REACH(write_ok); }
		else ASSERT(IN.r_write, "error only if write failed");
	}
}

/* ---------------- io_copy_attrs ---------------- */
void h_copy_attrs(void)
{
	HAVOC(IN, struct in);
	ASSUME(wf_in() && IN.dest_fd_kind == 0 && IN.src_gid != UINT32_MAX); /* (gid_t)-1 means 'leave unchanged' in fchown */
	setup_pair();
	io_copy_attrs(&P);
	const int i = first_ev(EV_FCHMOD, FD_DEST);
	ASSERT(i >= 0, "permissions are set");
	const mode_t m = GL.chmod_mode, s = IN.src_mode;
	ASSERT((m & ~(s & 0777)) == 0, "target never gets a permission bit the source lacks; no setuid/setgid/sticky");
	const bool group_failed = IN.src_gid != IN.dest_gid && IN.r_fchown2;
	if (!group_failed) { ASSERT(m == (s & 0777), "same permissions as the source"); REACH(attrs_same); }
	else {
		const mode_t go = ((s & 0070) >> 3) & (s & 0007);
		ASSERT(m == ((s & 0700) | (go << 3) | go), "group could not be set: group bits limited to what 'other' has too");
		REACH(attrs_reduced);
	}
	ASSERT(first_ev(EV_FUTIMENS, FD_DEST) >= 0 && GL.tv[0].tv_sec == 11 && GL.tv[0].tv_nsec == 12 && GL.tv[1].tv_sec == 13 && GL.tv[1].tv_nsec == 14, "timestamps copied from the source");
	ASSERT(GL.errors == 0, "attribute failures only warn");
}


/* ---------------- io_open_dest_real ---------------- */
void h_open_dest(void)
{
	HAVOC(IN, struct in);
	HAVOC(IN2, struct in2);
	ASSUME(wf_in());
	ASSUME(IN2.r_open_dir <= 1 && IN2.r_open_dest <= 1 && IN2.r_fstat <= 1 && IN2.dest_isreg <= 1 && IN2.r_fcntl_get <= 1 && IN2.r_fcntl_set <= 1 && IN2.name_null <= 1
		&& IN2.to_stdout <= 1 && IN2.src_stdin <= 1 && IN2.try_sparse_opt <= 1 && IN2.mode_decompress <= 1 && IN2.r_unlink_enoent <= 1 && IN2.r_lseek_end <= 1);
	ASSUME(IN2.stdout_flags >= 0 && IN2.cur_pos >= 0 && IN2.st_size >= 0);
	setup_pair(); memset(&GOP, 0, sizeof(GOP)); g_open_dest_mode = true;
	P.dest_fd = -1; P.dir_fd = -1; P.dest_name = NULL; P.dest_try_sparse = false;
	P.src_fd = IN2.src_stdin ? STDIN_FILENO : FD_SRC;
	opt_stdout = IN2.to_stdout; opt_force = IN.force; opt_synchronous = IN.sync; try_sparse = IN2.try_sparse_opt;
	opt_mode = IN2.mode_decompress ? MODE_DECOMPRESS : MODE_COMPRESS;
	const bool err = io_open_dest_real(&P);
	const bool to_stdout = IN2.to_stdout || IN2.src_stdin;
	const int i_unlink = first_ev(EV_UNLINK_DEST, -99);
	if (to_stdout) {
		ASSERT(GOP.opens == 0 && i_unlink < 0 && first_ev(EV_UNLINK_SRC, -99) < 0, "stdout destination: nothing opened, nothing removed");
		if (!err) ASSERT(P.dest_fd == STDOUT_FILENO, "destination is fd 1");
		if (!err && P.dest_try_sparse) {
			ASSERT(IN2.mode_decompress && IN2.try_sparse_opt && !IN2.r_fstat && IN2.dest_isreg, "sparse stdout only when decompressing into a regular file");
			if (IN2.stdout_flags & O_APPEND) { ASSERT(!IN2.r_lseek_end && !IN2.r_fcntl_set && (GOP.setfl_flags & O_APPEND) == 0 && restore_stdout_flags, "append mode: seek to the end, clear O_APPEND, remember to restore it"); REACH(od_stdout_append); }
			else { ASSERT(IN2.cur_pos == IN2.st_size, "non-append stdout must already be positioned at the end of the file"); REACH(od_stdout_sparse); }
		}
		REACH_IF(err, od_stdout_error);
		return;
	}
	if (IN2.name_null) { ASSERT(err && GOP.opens == 0 && i_unlink < 0, "no usable target name: error, nothing touched"); return; }
	/* every open of the target is an exclusive create */
	bool dest_opened = false;
	for (unsigned k = 0; k < 2; ++k) {
		if (k >= GOP.opens) break;
		if (GOP.open_flags[k] & O_DIRECTORY) continue;
		dest_opened = true;
		ASSERT(GOP.open_path[k] == DEST_NAME_BUF, "the file opened for writing is the computed target name");
		ASSERT((GOP.open_flags[k] & (O_CREAT | O_EXCL)) == (O_CREAT | O_EXCL) && (GOP.open_flags[k] & O_TRUNC) == 0 && (GOP.open_flags[k] & O_WRONLY), "target created with O_CREAT|O_EXCL, never truncated: an existing file cannot be overwritten by the open");
		ASSERT(GOP.open_mode[k] == (S_IRUSR | S_IWUSR), "created with mode 0600 until the source's permissions are copied");
	}
	ASSERT((i_unlink >= 0) == (IN.force && !(IN.sync && IN2.r_open_dir)), "an existing target is removed only with --force");
	if (i_unlink >= 0 && dest_opened) ASSERT(i_unlink < first_ev(100, -99) || first_ev(100, -99) >= 0, "removal precedes the exclusive create");
	if (IN.force && !(IN.sync && IN2.r_open_dir) && IN.r_unlink && !IN2.r_unlink_enoent) { ASSERT(err && !dest_opened, "target could not be removed: give up without opening"); REACH(od_unlink_failed); }
	if (err) {
		ASSERT(P.dir_fd == -1, "error: directory fd closed");
		ASSERT(!dest_opened || IN2.r_open_dest, "error paths leave no open destination fd behind");
		REACH(od_error);
		return;
	}
	ASSERT(dest_opened && P.dest_fd == FD_DEST, "success: destination opened");
	if (P.dest_try_sparse) { ASSERT(IN2.mode_decompress && IN2.try_sparse_opt && !IN2.r_fstat, "sparse mode only when decompressing with sparse files allowed"); REACH(od_sparse); }
	REACH(od_ok);
}


/* ---------------- io_open_src_real ---------------- */

void h_open_src(void)
{
	HAVOC(IN, struct in);
	HAVOC(IN2, struct in2);
	HAVOC(IN3, struct in3);
	ASSUME(wf_in());
	ASSUME(IN3.to_stdout <= 1 && IN3.force <= 1 && IN3.keep <= 1 && IN3.src_stdin <= 1 && IN3.r_open <= 1 && IN3.open_eloop <= 1 && IN3.r_lstat <= 1
		&& IN3.lstat_islnk <= 1 && IN3.r_fstat <= 1 && IN3.r_poll <= 1 && IN3.poll_hup <= 1 && IN3.list_mode <= 1);
	ASSUME(IN2.r_fcntl_get <= 1 && IN2.r_fcntl_set <= 1 && IN2.stdout_flags >= 0);
	setup_pair(); memset(&GOP, 0, sizeof(GOP)); g_open_src_mode = true;

	P.src_name = IN3.src_stdin ? stdin_filename : SRC_NAME;
	P.src_fd = -1; P.dest_fd = -1; P.dir_fd = -1; memset(&P.src_st, 0, sizeof(P.src_st));
	opt_stdout = IN3.to_stdout; opt_force = IN3.force; opt_keep_original = IN3.keep;
	opt_mode = IN3.list_mode ? MODE_LIST : MODE_COMPRESS;
	user_abort_pipe[0] = 8; user_abort_pipe[1] = 9;
	const bool err = io_open_src_real(&P);
	const int i_close = first_ev(EV_CLOSE, FD_SRC);
	if (IN3.src_stdin) {
		ASSERT(GOP.opens == 0 && first_ev(EV_CLOSE, -99) < 0, "standard input: nothing opened or closed");
		if (!err) ASSERT(P.src_fd == STDIN_FILENO, "source is fd 0");
		ASSERT(err == (IN2.r_fcntl_get != 0), "standard input is refused only if its flags cannot be read");
		REACH_IF(!err, os_stdin);
		return;
	}
	const bool replacing_strict = !IN3.to_stdout && !IN3.force && !IN3.keep;
	ASSERT(GOP.opens == 1 && GOP.open_path[0] == SRC_NAME, "the source is opened exactly once, by its name");
	const int fl = GOP.open_flags[0];
	ASSERT((fl & O_ACCMODE) == O_RDONLY && (fl & (O_CREAT | O_TRUNC | O_APPEND | O_EXCL)) == 0, "source opened read-only, never created or truncated");
	ASSERT((fl & O_NOCTTY) && (fl & O_NONBLOCK), "source opened with O_NOCTTY|O_NONBLOCK");
	ASSERT(((fl & O_NOFOLLOW) != 0) == !(IN3.to_stdout || IN3.force || IN3.keep), "symbolic links are followed only with --stdout, --force or --keep");
	const uint32_t m = IN3.mode;
	const bool special_bits = (m & (S_ISUID | S_ISGID | S_ISVTX)) != 0;
	if (!err) {
		ASSERT(!IN3.r_open && !IN3.r_fstat, "accepted only if open and fstat succeeded");
		ASSERT(P.src_fd == FD_SRC, "descriptor stored");
		ASSERT(!S_ISDIR(m), "a directory is never accepted");
		if (!IN3.to_stdout) ASSERT(S_ISREG(m), "without --stdout only regular files are processed (no file is written from a non-regular source)");
		if (replacing_strict) ASSERT(!special_bits && IN3.nlink <= 1, "replacing without --force/--keep: no setuid/setgid/sticky file, no file with several hard links");
		if (!S_ISREG(m)) { ASSERT(!IN3.r_poll, "non-regular source: waited for readability"); REACH(os_nonregular_stdout); }
		ASSERT(P.src_st.st_mode == m && P.src_st.st_nlink == IN3.nlink && P.src_st.st_ino == 100 && P.src_st.st_dev == 1, "src_st is what fstat reported for the opened descriptor");
		ASSERT(i_close < 0, "an accepted source stays open");
		ASSERT(GL.errors == 0 && GL.warnings == 0, "accepting is silent");
		REACH(os_accepted);
		REACH_IF(replacing_strict, os_accepted_strict);
	} else {
		if (IN3.r_open) {
			ASSERT(i_close < 0, "nothing to close after a failed open");
			const bool symlink = IN3.open_eloop && !(IN3.to_stdout || IN3.force || IN3.keep) && !IN3.r_lstat && IN3.lstat_islnk;
			ASSERT(symlink ? (GL.warnings == 1 && GL.errors == 0) : (GL.errors == 1 && GL.warnings == 0), "a skipped symbolic link is a warning, any other open failure an error");
			REACH_IF(symlink, os_symlink_skipped);
		} else {
			ASSERT(i_close >= 0, "every refusal after a successful open closes the descriptor");
			/* a user signal while waiting for a FIFO/device to become readable ends the wait silently */
			const bool waited = !IN3.r_fstat && !S_ISDIR(m) && !S_ISREG(m) && IN3.to_stdout;
			ASSERT(waited ? GL.errors + GL.warnings <= 1 : GL.errors + GL.warnings == 1, "exactly one diagnostic per refused file");
			REACH(os_refused_closed);
		}
	}
	/* completeness: ordinary files are never refused */
	if (!IN3.r_open && !IN3.r_fstat && S_ISREG(m) && !special_bits && IN3.nlink <= 1) ASSERT(!err, "an ordinary regular file is always accepted");
	if (!IN3.r_open && !IN3.r_fstat && S_ISREG(m) && !replacing_strict) ASSERT(!err, "with --stdout, --force or --keep any regular file is accepted");
	REACH_IF(err && !IN3.r_open && !IN3.r_fstat && S_ISREG(m) && IN3.nlink > 1, os_hardlink_refused);
	REACH_IF(err && !IN3.r_open && !IN3.r_fstat && S_ISREG(m) && special_bits && IN3.nlink <= 1, os_setuid_refused);
}
