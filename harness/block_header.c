/* Block Header encoder/decoder (src/liblzma/common/block_header_{encoder,decoder}.c, block_util.c): C02, C03, C05, C10, C04. */

/*@obligation
id: C03.bhdr.decode
props: C03 C05 C10 C04
entry: h_bh_decode
unwind: 26
kind: bounded
bound: Block Header sizes 8..24 bytes (every byte symbolic); 1..4 filters through a stub that consumes 2 bytes each
fn: lzma_block_header_decode lzma_block_unpadded_size lzma_vli_decode
sentinels: 6
expect: 40
timeout: 900
desc: lzma_block_header_decode equals an independent parser of xz-file-format 3.1: wrong size byte / check id is PROG_ERROR; CRC32 over header_size-4 bytes must match (DATA_ERROR); reserved flag bits 0x3C must be zero (OPTIONS_ERROR); Compressed/Uncompressed Size VLIs present iff bits 6/7, must be valid VLIs inside the header, Compressed Size must be non-zero and give a representable Unpadded Size (DATA_ERROR); (bits0-1)+1 Filter Flags are decoded in order; every remaining byte up to the CRC must be 0x00 (OPTIONS_ERROR); absent sizes are reported as LZMA_VLI_UNKNOWN; on every failure after a filter was decoded the already allocated filter options are freed; no read outside the header
assume: lzma_filter_flags_decode is a stub (2 bytes per filter, nondeterministic result); lzma_crc32 is a ghost fold (C14 covers the real CRC); lzma_filters_free is a recording stub
*/
/*@obligation
id: C02.bhdr.encode
props: C02 C03 C06 C04
entry: h_bh_encode
unwind: 26
kind: bounded
bound: header sizes up to 24 bytes; 1..4 filters through a stub that emits 2 bytes each
fn: lzma_block_header_size lzma_block_header_encode lzma_block_header_decode
sentinels: 3
expect: 40
timeout: 900
desc: lzma_block_header_size + lzma_block_header_encode for all size values: header_size is a multiple of four in 8..1024 and large enough; invalid blocks (zero/invalid sizes, no filters, more than four filters) are refused; the bytes produced are accepted by the real decoder and by the independent parser with the same Compressed/Uncompressed sizes and filter count; byte 0 = header_size/4 - 1, reserved bits zero, padding zero, CRC32 over everything before it
assume: lzma_filter_flags_size/encode are stubs (2 bytes per filter)
*/

#include "verif.h"
#include "spec_vli.h"
#include "liblzma/common/common.h"

static uint32_t ghost_fold(const uint8_t *buf, size_t size, uint32_t crc)
{
	for (size_t k = 0; k < size; ++k)
		crc = ((crc << 5) | (crc >> 27)) ^ (uint32_t)(buf[k] + 0x9E37u);
	return crc;
}
uint32_t lzma_crc32(const uint8_t *buf, size_t size, uint32_t crc) { return ghost_fold(buf, size, crc); }

struct in {
	uint8_t hdr[24]; uint32_t header_size, check, version;
	uint32_t ff_ret[4];
	uint64_t comp, unc; uint32_t nfilters;
};
static struct in IN VERIF_IN_INIT;

static struct { unsigned ff_calls, frees; size_t ff_pos[4]; } GH;
static int OPTOBJ[4];
lzma_ret lzma_filter_flags_decode(lzma_filter *f, const lzma_allocator *a, const uint8_t *in, size_t *in_pos, size_t in_size)
{
	(void)a;
	const unsigned k = GH.ff_calls++;
	if (k < 4) GH.ff_pos[k] = *in_pos;
	if (in_size - *in_pos < 2) return LZMA_DATA_ERROR;
	if (k < 4 && IN.ff_ret[k] != LZMA_OK) return (lzma_ret)IN.ff_ret[k];
	f->id = in[*in_pos]; f->options = &OPTOBJ[k & 3];
	*in_pos += 2;
	return LZMA_OK;
}
lzma_ret lzma_filter_flags_size(uint32_t *size, const lzma_filter *f) { (void)f; *size = 2; return LZMA_OK; }
lzma_ret lzma_filter_flags_encode(const lzma_filter *f, uint8_t *out, size_t *out_pos, size_t out_size)
{
	if (out_size - *out_pos < 2) return LZMA_PROG_ERROR;
	out[*out_pos] = (uint8_t)f->id; out[*out_pos + 1] = 0; *out_pos += 2;
	return LZMA_OK;
}
void lzma_filters_free(lzma_filter *f, const lzma_allocator *a) { (void)a; ++GH.frees; for (int i = 0; i < 5; ++i) { f[i].id = LZMA_VLI_UNKNOWN; f[i].options = NULL; } }
uint32_t lzma_check_size(lzma_check type)
{
	static const uint8_t sz[16] = { 0, 4, 4, 4, 8, 8, 8, 16, 16, 16, 32, 32, 32, 64, 64, 64 };
	return (unsigned)type > 15 ? UINT32_MAX : sz[(unsigned)type];
}

#include "liblzma/common/vli_size.c"
#include "liblzma/common/vli_encoder.c"
#include "liblzma/common/vli_decoder.c"
#include "liblzma/common/block_util.c"
#include "liblzma/common/block_header_decoder.c"
#include "liblzma/common/block_header_encoder.c"

/* ---- independent parser (xz-file-format.txt 3.1) ---- */
enum { P_OK, P_PROG, P_DATA, P_OPTIONS, P_FILTER };
struct parsed { int status; uint64_t comp, unc; unsigned nfilters; size_t filter_pos[4]; unsigned failing_filter; };

static struct parsed spec_bh_parse(const uint8_t *h, uint32_t header_size, uint32_t check, const uint32_t *ff_ret)
{
	struct parsed p = { P_OK, LZMA_VLI_UNKNOWN, LZMA_VLI_UNKNOWN, 0, { 0, 0, 0, 0 }, 0 };
	if (((uint32_t)h[0] + 1) * 4 != header_size || check > 15) { p.status = P_PROG; return p; }
	const size_t n = header_size - 4;
	const uint32_t stored = (uint32_t)h[n] | ((uint32_t)h[n + 1] << 8) | ((uint32_t)h[n + 2] << 16) | ((uint32_t)h[n + 3] << 24);
	if (ghost_fold(h, n, 0) != stored) { p.status = P_DATA; return p; }
	if (h[1] & 0x3C) { p.status = P_OPTIONS; return p; }
	size_t pos = 2;
	if (h[1] & 0x40) {
		uint64_t v = 0; const int len = spec_vli_parse(h + pos, n - pos, &v);
		if (len <= 0) { p.status = P_DATA; return p; }
		pos += (size_t)len; p.comp = v;
		/* Compressed Size 0 is invalid; Unpadded Size = comp + header + check must stay representable */
		static const uint8_t sz[16] = { 0, 4, 4, 4, 8, 8, 8, 16, 16, 16, 32, 32, 32, 64, 64, 64 };
		if (v == 0 || v > (SPEC_VLI_MAX & ~UINT64_C(3)) - header_size - sz[check]) { p.status = P_DATA; return p; }
	}
	if (h[1] & 0x80) {
		uint64_t v = 0; const int len = spec_vli_parse(h + pos, n - pos, &v);
		if (len <= 0) { p.status = P_DATA; return p; }
		pos += (size_t)len; p.unc = v;
	}
	p.nfilters = (h[1] & 3u) + 1;
	for (unsigned k = 0; k < 4; ++k) {
		if (k >= p.nfilters) break;
		p.filter_pos[k] = pos;
		if (n - pos < 2) { p.status = P_FILTER; p.failing_filter = k; return p; }
		if (ff_ret[k] != LZMA_OK) { p.status = P_FILTER; p.failing_filter = k; return p; }
		pos += 2;
	}
	for (; pos < n; ++pos)
		if (h[pos] != 0) { p.status = P_OPTIONS; return p; }
	return p;
}

static lzma_filter FLT[5];

void h_bh_decode(void)
{
	HAVOC(IN, struct in);
	ASSUME(IN.header_size >= 8 && IN.header_size <= 24 && (IN.header_size & 3) == 0 && IN.version <= 1);
	for (int k = 0; k < 4; ++k) ASSUME(IN.ff_ret[k] == LZMA_OK || IN.ff_ret[k] == LZMA_OPTIONS_ERROR || IN.ff_ret[k] == LZMA_MEM_ERROR || IN.ff_ret[k] == LZMA_DATA_ERROR);
	lzma_block b; memset(&b, 0xEE, sizeof(b));
	b.version = IN.version; b.header_size = IN.header_size; b.check = (lzma_check)IN.check; b.filters = FLT;
	memset(&GH, 0, sizeof(GH));
	const lzma_ret r = lzma_block_header_decode(&b, NULL, IN.hdr);
	const struct parsed p = spec_bh_parse(IN.hdr, IN.header_size, IN.check, IN.ff_ret);
	switch (p.status) {
	case P_PROG: ASSERT(r == LZMA_PROG_ERROR, "size byte / check id inconsistent with the caller's values"); REACH(bh_prog); break;
	case P_DATA: ASSERT(r == LZMA_DATA_ERROR, "CRC32 mismatch, invalid VLI, zero or unrepresentable Compressed Size"); REACH(bh_data); break;
	case P_OPTIONS: ASSERT(r == LZMA_OPTIONS_ERROR, "reserved bits set or non-zero padding"); REACH(bh_options); break;
	case P_FILTER:
		ASSERT(r != LZMA_OK && GH.ff_calls == p.failing_filter + 1, "Filter Flags error passed on");
		ASSERT(GH.frees == 1, "options of the filters decoded so far are freed");
		REACH(bh_filter_error);
		break;
	default:
		ASSERT(r == LZMA_OK, "valid Block Header accepted");
		ASSERT(b.compressed_size == p.comp && b.uncompressed_size == p.unc, "sizes as stored (LZMA_VLI_UNKNOWN when absent)");
		ASSERT(GH.ff_calls == p.nfilters, "(flags & 3) + 1 filters");
		for (unsigned k = 0; k < 4; ++k) if (k < p.nfilters) ASSERT(GH.ff_pos[k] == p.filter_pos[k] && FLT[k].id == IN.hdr[p.filter_pos[k]], "Filter Flags decoded in order from the right offsets");
		ASSERT(FLT[p.nfilters].id == LZMA_VLI_UNKNOWN && !b.ignore_check, "filter array terminated");
		REACH(bh_ok);
		REACH_IF(p.comp != LZMA_VLI_UNKNOWN && p.unc != LZMA_VLI_UNKNOWN, bh_ok_sizes);
		break;
	}
	if (p.status == P_OPTIONS && GH.ff_calls > 0) ASSERT(GH.frees == 1, "non-zero padding after filters: options freed");
}

void h_bh_encode(void)
{
	HAVOC(IN, struct in);
	ASSUME(IN.check <= 15 && IN.version <= 1 && IN.nfilters <= 5);
	for (int k = 0; k < 4; ++k) ASSUME(IN.ff_ret[k] == LZMA_OK); /* the Filter Flags stub succeeds in the round trip */
	lzma_filter f[6];
	for (unsigned k = 0; k < 6; ++k) { f[k].id = k < IN.nfilters ? 0x21 + k : LZMA_VLI_UNKNOWN; f[k].options = NULL; }
	lzma_block b; memset(&b, 0, sizeof(b));
	b.version = IN.version; b.check = (lzma_check)IN.check; b.compressed_size = IN.comp; b.uncompressed_size = IN.unc; b.filters = f;
	const lzma_ret rs = lzma_block_header_size(&b);
	const bool comp_ok = IN.comp == LZMA_VLI_UNKNOWN || (IN.comp != 0 && IN.comp <= LZMA_VLI_MAX);
	const bool unc_ok = IN.unc == LZMA_VLI_UNKNOWN || IN.unc <= LZMA_VLI_MAX;
	if (!comp_ok || !unc_ok || IN.nfilters == 0 || IN.nfilters > 4) { ASSERT(rs == LZMA_PROG_ERROR || rs == LZMA_OPTIONS_ERROR, "invalid Block options refused"); REACH(bhe_refused); return; }
	ASSERT(rs == LZMA_OK, "size computed");
	const uint32_t need = 2 + (IN.comp != LZMA_VLI_UNKNOWN ? spec_vli_size(IN.comp) : 0) + (IN.unc != LZMA_VLI_UNKNOWN ? spec_vli_size(IN.unc) : 0) + 2 * IN.nfilters + 4;
	ASSERT((b.header_size & 3) == 0 && b.header_size >= 8 && b.header_size <= 1024 && b.header_size >= need && b.header_size < need + 4, "header_size: smallest multiple of four that holds the fields");
	uint8_t out[32]; memset(out, 0xEE, sizeof(out));
	ASSUME(b.header_size <= 24);
	const lzma_ret re = lzma_block_header_encode(&b, out);
	/* Unpadded Size must be representable, else the encoder refuses */
	static const uint8_t sz[16] = { 0, 4, 4, 4, 8, 8, 8, 16, 16, 16, 32, 32, 32, 64, 64, 64 };
	if (IN.comp != LZMA_VLI_UNKNOWN && IN.comp > (LZMA_VLI_MAX & ~LZMA_VLI_C(3)) - b.header_size - sz[IN.check]) { ASSERT(re == LZMA_PROG_ERROR, "unrepresentable Unpadded Size refused"); return; }
	ASSERT(re == LZMA_OK, "encoded");
	ASSERT(out[b.header_size] == 0xEE, "nothing written past header_size");
	static const uint32_t all_ok[4] = { LZMA_OK, LZMA_OK, LZMA_OK, LZMA_OK };
	const struct parsed p = spec_bh_parse(out, b.header_size, IN.check, all_ok);
	ASSERT(p.status == P_OK && p.comp == IN.comp && p.unc == IN.unc && p.nfilters == IN.nfilters, "the independent parser accepts the bytes and reads back the same sizes and filter count");
	ASSERT(out[0] == b.header_size / 4 - 1 && (out[1] & 0x3C) == 0, "size byte and reserved bits");
	/* and the real decoder agrees */
	lzma_block d; memset(&d, 0, sizeof(d)); d.version = 1; d.header_size = b.header_size; d.check = (lzma_check)IN.check; d.filters = FLT;
	memset(&GH, 0, sizeof(GH));
	ASSERT(lzma_block_header_decode(&d, NULL, out) == LZMA_OK && d.compressed_size == IN.comp && d.uncompressed_size == IN.unc && GH.ff_calls == IN.nfilters, "decode(encode(block)) returns the same Block Header fields");
	REACH(bhe_roundtrip);
	REACH_IF(IN.comp != LZMA_VLI_UNKNOWN && IN.unc != LZMA_VLI_UNKNOWN && IN.nfilters == 4, bhe_full);
}
