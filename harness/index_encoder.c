/* Index encoder (src/liblzma/common/index_encoder.c): C02, C06, C13, C04. */

/*@obligation
id: C02.index.encode
props: C02 C06 C13 C04
entry: h_index_encode
unwind: 12
fn: index_encode lzma_vli_encode
sentinels: 5
expect: 30
desc: one index_encode call from ANY encoder state with 0..8 bytes of output room (so every way the output can fill up inside a field): every byte written before the CRC32 field has been fed to the CRC exactly once and in order, whatever return path is taken (the stored CRC32 is the CRC of exactly the Index bytes in front of it, independent of how the caller slices the output); the CRC32 field is the little-endian value of that CRC, resumed correctly at any byte; Index Indicator is 0x00; count and sizes go through lzma_vli_encode with the resumable position; padding is lzma_index_padding_size() zero bytes; STREAM_END exactly after the 4th CRC byte
assume: lzma_index_iter_next / lzma_index_block_count / lzma_index_padding_size are stubs (their contracts: C13); lzma_crc32 is replaced by a ghost order- and range-sensitive fold (the real CRC32 is C14)
*/

#include "verif.h"
#include "liblzma/common/common.h"

static uint32_t ghost_fold(const uint8_t *buf, size_t size, uint32_t crc)
{
	for (size_t k = 0; k < size; ++k)
		crc = ((crc << 5) | (crc >> 27)) ^ (uint32_t)(buf[k] + 0x9E37u);
	return crc;
}
uint32_t lzma_crc32(const uint8_t *buf, size_t size, uint32_t crc) { return ghost_fold(buf, size, crc); }
void *lzma_alloc(size_t s, const lzma_allocator *a) { (void)s; (void)a; return NULL; }
void lzma_free(void *p, const lzma_allocator *a) { (void)p; (void)a; }
void lzma_next_end(lzma_next_coder *n, const lzma_allocator *a) { (void)a; *n = LZMA_NEXT_CODER_INIT; }
lzma_ret lzma_strm_init(lzma_stream *s) { (void)s; return LZMA_PROG_ERROR; }
void lzma_end(lzma_stream *s) { (void)s; }

struct in {
	uint32_t seq; size_t pos; uint32_t crc;
	uint64_t count, unpadded, uncompressed;
	uint8_t iter_end; uint32_t padding;
	size_t out_size;
};
static struct in IN VERIF_IN_INIT;

static unsigned g_next_calls;
lzma_bool lzma_index_iter_next(lzma_index_iter *iter, lzma_index_iter_mode mode)
{
	(void)mode; ++g_next_calls;
	if (IN.iter_end) return true;
	iter->block.unpadded_size = IN.unpadded; iter->block.uncompressed_size = IN.uncompressed;
	return false;
}
void lzma_index_iter_init(lzma_index_iter *iter, const lzma_index *i) { (void)iter; (void)i; }
lzma_vli lzma_index_block_count(const lzma_index *i) { (void)i; return IN.count; }
uint32_t lzma_index_padding_size(const lzma_index *i) { (void)i; return IN.padding; }
lzma_vli lzma_index_size(const lzma_index *i) { (void)i; return 0; }

#include "liblzma/common/vli_size.c"
#include "liblzma/common/vli_encoder.c"
#include "liblzma/common/index_encoder.c"

static lzma_index_coder C;
static uint8_t OUT[8];
static int IDX;

void h_index_encode(void)
{
	HAVOC(IN, struct in);
	ASSUME(IN.seq <= SEQ_CRC32 && IN.out_size <= 8 && IN.iter_end <= 1 && IN.padding <= 3);
	ASSUME(IN.count <= LZMA_VLI_MAX && IN.unpadded <= LZMA_VLI_MAX && IN.uncompressed <= LZMA_VLI_MAX);
	/* position field: VLI byte position while in a VLI state, padding bytes left in SEQ_PADDING, CRC byte index in SEQ_CRC32 */
	ASSUME(IN.seq == SEQ_PADDING ? IN.pos <= 3 : (IN.seq == SEQ_CRC32 ? IN.pos <= 3 : IN.pos <= 8));
	ASSUME(IN.seq == SEQ_INDICATOR || IN.seq == SEQ_NEXT ? IN.pos == 0 : true);
	/* a VLI resumed at byte 'pos' must still have bytes left there (reachable states) */
	ASSUME(IN.seq != SEQ_COUNT || IN.pos < lzma_vli_size(IN.count));
	ASSUME(IN.seq != SEQ_UNPADDED || IN.pos < lzma_vli_size(IN.unpadded));
	ASSUME(IN.seq != SEQ_UNCOMPRESSED || IN.pos < lzma_vli_size(IN.uncompressed));
	memset(&C, 0, sizeof(C));
	C.sequence = IN.seq; C.pos = IN.pos; C.crc32 = IN.crc; C.index = (const lzma_index *)&IDX;
	C.iter.block.unpadded_size = IN.unpadded; C.iter.block.uncompressed_size = IN.uncompressed;
	g_next_calls = 0;
	size_t out_pos = 0;
	const lzma_ret r = index_encode(&C, NULL, NULL, NULL, 0, OUT, &out_pos, IN.out_size, LZMA_RUN);
	ASSERT(out_pos <= IN.out_size, "never writes past the output buffer");
	ASSERT(r == LZMA_OK || r == LZMA_STREAM_END, "only OK / STREAM_END");
	if (IN.seq == SEQ_CRC32) {
		/* resuming inside the CRC field */
		const size_t n = (4 - IN.pos) < IN.out_size ? (4 - IN.pos) : IN.out_size;
		ASSERT(out_pos == n && C.crc32 == IN.crc, "CRC field resumed: CRC value untouched");
		for (size_t k = 0; k < 4; ++k)
			if (k < n) ASSERT(OUT[k] == (uint8_t)(IN.crc >> ((IN.pos + k) * 8)), "CRC32 bytes little endian, resumed at the right byte");
		ASSERT((r == LZMA_STREAM_END) == (IN.pos + n == 4), "STREAM_END exactly after the 4th CRC byte");
		REACH_IF(r == LZMA_STREAM_END, ienc_crc_done);
		return;
	}
	if (C.sequence != SEQ_CRC32) {
		ASSERT(r == LZMA_OK, "not finished");
		ASSERT(C.crc32 == ghost_fold(OUT, out_pos, IN.crc), "every byte written in this call was fed to the CRC once, in order (whichever return path)");
		REACH_IF(out_pos == IN.out_size && out_pos > 0 && (C.sequence == SEQ_UNPADDED || C.sequence == SEQ_UNCOMPRESSED) && C.pos > 0, ienc_split_in_vli);
		REACH_IF(C.sequence == SEQ_COUNT && C.pos > 0, ienc_split_in_count);
	} else {
		/* the CRC stage was entered in this call: bytes [0, p) are Index bytes, [p, out_pos) CRC bytes */
		const size_t ncrc = r == LZMA_STREAM_END ? 4 : C.pos;
		ASSERT(ncrc <= out_pos, "CRC bytes are part of this call's output");
		const size_t p = out_pos - ncrc;
		ASSERT(C.crc32 == ghost_fold(OUT, p, IN.crc), "the CRC covers exactly the Index bytes in front of the CRC field");
		for (size_t k = 0; k < 4; ++k)
			if (k < ncrc) ASSERT(OUT[p + k] == (uint8_t)(C.crc32 >> (k * 8)), "CRC32 field little endian");
		REACH(ienc_crc_entered);
	}
	if (IN.seq == SEQ_INDICATOR && out_pos > 0) { ASSERT(OUT[0] == 0x00, "Index Indicator"); REACH(ienc_indicator); }
	if (IN.seq == SEQ_PADDING && out_pos >= IN.pos) {
		for (size_t k = 0; k < 3; ++k) if (k < IN.pos) ASSERT(OUT[k] == 0x00, "Index Padding bytes are zero");
	}
}
