/* Obligations on lzma_vli_size / lzma_vli_encode / lzma_vli_decode (C02, C03, C04, C06). */

/*@obligation
id: C02.vli.size
props: C02 C03 C13
entry: h_vli_size
enforce: w_vli_size
unwind: 13
kind: proof
fn: lzma_vli_size
sentinels: 2
expect: 5
desc: lzma_vli_size(v) is the length (1..9) of the unique minimal encoding of v, 0 iff v > LZMA_VLI_MAX; loop bounded by the 63-bit width (unwind 11 complete)
*/

/*@obligation
id: C02.vli.encode.single
props: C02 C04
entry: h_vli_enc_single
enforce: w_vli_enc_single
unwind: 13
kind: proof
fn: lzma_vli_encode
sentinels: 3
expect: 10
desc: single-call lzma_vli_encode: OK iff the minimal encoding fits; exactly spec_vli_byte(v,i) written at out_pos.., out_pos advanced by spec_vli_size(v); never writes at or past out_size; other bytes untouched
*/

/*@obligation
id: C06.vli.encode.split
props: C02 C06
entry: h_vli_enc_split
enforce: w_vli_enc_split
unwind: 13
kind: proof
fn: lzma_vli_encode
sentinels: 3
expect: 10
desc: multi-call lzma_vli_encode, every value, every split point k: first call with k bytes of room then a second call produce exactly the single-call bytes, STREAM_END exactly when complete, vli_pos counts bytes emitted
*/

/*@obligation
id: C03.vli.decode.single
props: C03 C04 C05
entry: h_vli_dec_single
enforce: w_vli_dec_single
unwind: 13
kind: proof
fn: lzma_vli_decode
sentinels: 3
expect: 10
desc: single-call lzma_vli_decode returns OK iff in[in_pos..in_size) starts with a valid minimal encoding (<= 9 bytes, value <= LZMA_VLI_MAX); value and consumed length equal the spec parse; else DATA_ERROR; never reads at or past in_size
*/

/*@obligation
id: C06.vli.decode.split
props: C03 C06
entry: h_vli_dec_split
enforce: w_vli_dec_split
unwind: 13
kind: proof
fn: lzma_vli_decode
sentinels: 3
expect: 10
desc: multi-call lzma_vli_decode, every byte string, every split point k: feeding k bytes then the rest gives the same value, status and total consumption as one call with everything
*/

#include "verif.h"
#include "spec_vli.h"
#include "liblzma/common/common.h"
#include "liblzma/common/vli_size.c"
#include "liblzma/common/vli_encoder.c"
#include "liblzma/common/vli_decoder.c"

#define NB 12

struct in {
	uint64_t v;
	uint8_t buf[NB];
	size_t pos;   /* in_pos / out_pos on entry */
	size_t size;  /* in_size / out_size */
	size_t k;     /* split point */
};
static struct in IN VERIF_IN_INIT;

struct out {
	uint8_t buf[NB];
	size_t pos;
	size_t vli_pos;
	uint64_t v;
	lzma_ret r1, r2;
	uint8_t buf2[NB];
	size_t pos2;
	uint64_t v2;
};
static struct out OUT;

/* ---- lzma_vli_size ---- */
static bool post_vli_size(uint32_t r) { return r == spec_vli_size(IN.v); }

uint32_t w_vli_size(void)
ENSURES(post_vli_size(RET))
ASSIGNS()
{
	return lzma_vli_size(IN.v);
}

void h_vli_size(void)
{
	HAVOC(IN, struct in);
	uint32_t r = w_vli_size();
	NATIVE_ASSERT(post_vli_size(r), "lzma_vli_size == spec_vli_size");
	REACH_IF(r == 0, size_zero);
	REACH_IF(r == 9, size_nine);
}

/* ---- single-call encode ---- */
static bool pre_enc(void) { return IN.size <= NB && IN.pos <= IN.size; }

static bool post_enc_single(lzma_ret r)
{
	const uint32_t n = spec_vli_size(IN.v);
	const bool fits = n != 0 && IN.pos < IN.size && IN.size - IN.pos >= n;
	if ((r == LZMA_OK) != fits)
		return false;
	if (r != LZMA_OK && r != LZMA_PROG_ERROR)
		return false;
	/* frame: nothing before pos, nothing at/after size */
	for (size_t i = 0; i < NB; ++i)
		if ((i < IN.pos || i >= IN.size) && OUT.buf[i] != IN.buf[i])
			return false;
	if (OUT.pos > IN.size || OUT.pos < IN.pos)
		return false;
	if (r == LZMA_OK) {
		if (OUT.pos != IN.pos + n)
			return false;
		for (uint32_t i = 0; i < 9; ++i) {
			if (i < n && OUT.buf[IN.pos + i] != spec_vli_byte(IN.v, i))
				return false;
			if (i >= n && IN.pos + i < NB && OUT.buf[IN.pos + i] != IN.buf[IN.pos + i])
				return false;
		}
	}
	return true;
}

lzma_ret w_vli_enc_single(void)
REQUIRES(pre_enc())
ENSURES(post_enc_single(RET))
ASSIGNS(OUT)
{
	memcpy(OUT.buf, IN.buf, NB);
	OUT.pos = IN.pos;
	return lzma_vli_encode(IN.v, NULL, OUT.buf, &OUT.pos, IN.size);
}

void h_vli_enc_single(void)
{
	HAVOC(IN, struct in);
	NATIVE_ASSUME(pre_enc());
	lzma_ret r = w_vli_enc_single();
	NATIVE_ASSERT(post_enc_single(r), "single-call lzma_vli_encode postcondition");
	REACH_IF(r == LZMA_OK && OUT.pos == IN.pos + 9, enc_ok_9);
	REACH_IF(r == LZMA_OK && OUT.pos == IN.pos + 1, enc_ok_1);
	REACH_IF(r == LZMA_PROG_ERROR, enc_prog);
}

/* ---- multi-call encode: two-piece split ---- */
static bool pre_enc_split(void)
{
	return IN.v <= SPEC_VLI_MAX && IN.k >= 1 && IN.k <= 9;
}

static bool post_enc_split(lzma_ret unused)
{
	(void)unused;
	const uint32_t n = spec_vli_size(IN.v);
	/* first call: room for k bytes */
	if (IN.k >= n) {
		if (OUT.r1 != LZMA_STREAM_END || OUT.pos != n || OUT.vli_pos != n)
			return false;
	} else {
		if (OUT.r1 != LZMA_OK || OUT.pos != IN.k)
			return false;
		if (OUT.r2 != LZMA_STREAM_END || OUT.pos2 != n || OUT.vli_pos != n)
			return false;
	}
	for (uint32_t i = 0; i < 9; ++i)
		if (i < n && OUT.buf[i] != spec_vli_byte(IN.v, i))
			return false;
	return true;
}

lzma_ret w_vli_enc_split(void)
REQUIRES(pre_enc_split())
ENSURES(post_enc_split(RET))
ASSIGNS(OUT)
{
	OUT.pos = 0;
	OUT.vli_pos = 0;
	OUT.r2 = LZMA_OK;
	OUT.r1 = lzma_vli_encode(IN.v, &OUT.vli_pos, OUT.buf, &OUT.pos, IN.k);
	OUT.pos2 = OUT.pos;
	if (OUT.r1 == LZMA_OK)
		OUT.r2 = lzma_vli_encode(IN.v, &OUT.vli_pos, OUT.buf, &OUT.pos2, NB);
	return OUT.r1;
}

void h_vli_enc_split(void)
{
	HAVOC(IN, struct in);
	NATIVE_ASSUME(pre_enc_split());
	lzma_ret r = w_vli_enc_split();
	NATIVE_ASSERT(post_enc_split(r), "two-piece lzma_vli_encode equals the one-piece encoding");
	REACH_IF(OUT.r1 == LZMA_OK && OUT.r2 == LZMA_STREAM_END && OUT.pos2 == 9, split_9);
	REACH_IF(OUT.r1 == LZMA_STREAM_END, split_done_first);
	REACH_IF(OUT.r1 == LZMA_OK && IN.k == 4, split_4);
}

/* ---- single-call decode ---- */
static bool pre_dec(void) { return IN.size <= NB && IN.pos <= IN.size; }

static bool post_dec_single(lzma_ret r)
{
	uint64_t sv = 0;
	const int n = spec_vli_parse(IN.buf + IN.pos, IN.size - IN.pos, &sv);
	if (n > 0) {
		return r == LZMA_OK && OUT.v == sv && OUT.pos == IN.pos + (size_t)n
				&& sv <= SPEC_VLI_MAX;
	}
	return r == LZMA_DATA_ERROR && OUT.pos <= IN.size && OUT.pos >= IN.pos;
}

lzma_ret w_vli_dec_single(void)
REQUIRES(pre_dec())
ENSURES(post_dec_single(RET))
ASSIGNS(OUT)
{
	OUT.pos = IN.pos;
	OUT.v = IN.v; /* garbage on entry must not matter */
	return lzma_vli_decode(&OUT.v, NULL, IN.buf, &OUT.pos, IN.size);
}

void h_vli_dec_single(void)
{
	HAVOC(IN, struct in);
	NATIVE_ASSUME(pre_dec());
	lzma_ret r = w_vli_dec_single();
	NATIVE_ASSERT(post_dec_single(r), "single-call lzma_vli_decode postcondition");
	REACH_IF(r == LZMA_OK && OUT.pos == IN.pos + 9, dec_ok_9);
	REACH_IF(r == LZMA_OK && OUT.pos == IN.pos + 1, dec_ok_1);
	REACH_IF(r == LZMA_DATA_ERROR, dec_data_error);
}

/* ---- multi-call decode: two-piece split ---- */
static bool pre_dec_split(void) { return IN.size <= NB && IN.k <= IN.size; }

static bool post_dec_split(lzma_ret unused)
{
	(void)unused;
	/* reference: one call with everything */
	if (OUT.r1 == LZMA_BUF_ERROR || OUT.r2 == LZMA_BUF_ERROR) {
		/* BUF_ERROR only when a call gets no input at all */
		return (IN.k == 0 && OUT.r1 == LZMA_BUF_ERROR) || (IN.k == IN.size && OUT.r2 == LZMA_BUF_ERROR) ? true : false;
	}
	uint64_t sv = 0;
	const int n = spec_vli_parse(IN.buf, IN.size, &sv);
	lzma_ret final = OUT.r1 == LZMA_OK ? OUT.r2 : OUT.r1;
	size_t fpos = OUT.r1 == LZMA_OK ? OUT.pos2 : OUT.pos;
	if (n > 0)
		return final == LZMA_STREAM_END && OUT.v == sv && fpos == (size_t)n && OUT.vli_pos == (size_t)n;
	if (n == 0)
		return final == LZMA_DATA_ERROR;
	/* truncated: all input consumed, more wanted */
	return final == LZMA_OK && fpos == IN.size;
}

lzma_ret w_vli_dec_split(void)
REQUIRES(pre_dec_split())
ENSURES(post_dec_split(RET))
ASSIGNS(OUT)
{
	OUT.pos = 0;
	OUT.vli_pos = 0;
	OUT.v = IN.v;
	OUT.r2 = LZMA_OK;
	OUT.r1 = lzma_vli_decode(&OUT.v, &OUT.vli_pos, IN.buf, &OUT.pos, IN.k);
	OUT.pos2 = OUT.pos;
	if (OUT.r1 == LZMA_OK)
		OUT.r2 = lzma_vli_decode(&OUT.v, &OUT.vli_pos, IN.buf, &OUT.pos2, IN.size);
	return OUT.r1;
}

void h_vli_dec_split(void)
{
	HAVOC(IN, struct in);
	NATIVE_ASSUME(pre_dec_split());
	lzma_ret r = w_vli_dec_split();
	NATIVE_ASSERT(post_dec_split(r), "two-piece lzma_vli_decode equals the one-piece decoding");
	REACH_IF(OUT.r1 == LZMA_OK && OUT.r2 == LZMA_STREAM_END && OUT.pos2 == 9, dsplit_9);
	REACH_IF(OUT.r1 == LZMA_STREAM_END, dsplit_first);
	REACH_IF(OUT.r1 == LZMA_OK && OUT.r2 == LZMA_DATA_ERROR, dsplit_err);
}
