/* Index decoder (src/liblzma/common/index_decoder.c): C13, C03, C04, C05, C06, C09. */

/*@obligation
id: C13.index_decode.indicator
defs: -DID_SEQ=0
props: C13 C03 C04 C05 C06 C09
entry: h_idec
unwind: 12
missed_ok: yes
fn: index_decode index_decoder_memconfig
sentinels: 1
expect: 30
timeout: 900
desc: (entry state indicator) one index_decode call from ANY state of that kind with 1..3 input bytes (1..5 in the padding/CRC states): Index Indicator must be 0x00; after the Record count the memory needed for that many Records (lzma_index_memusage(1,count)) is compared with the limit BEFORE anything is pre-allocated -- MEMLIMIT_ERROR keeps the state for a retry after lzma_memlimit_set and allocates nothing; each Record's Unpadded Size must be within 5..UNPADDED_SIZE_MAX; every complete Record is appended to the lzma_index with exactly the decoded (unpadded, uncompressed) pair and the remaining count goes down by one; padding bytes must be zero; the CRC32 is computed over exactly the Index bytes consumed before the CRC field on every return path (input slicing does not matter) and compared byte by byte; the finished lzma_index is handed to the caller only at STREAM_END (never for a truncated or damaged Index)
assume: lzma_index_append / lzma_index_prealloc / lzma_index_memusage / lzma_index_padding_size are recording stubs (C13.append, C13.arith cover them); lzma_crc32 is a ghost fold
*/
/*@obligation
id: C13.index_decode.count
defs: -DID_SEQ=1
props: C13 C03 C04 C05 C06 C09
entry: h_idec
unwind: 12
missed_ok: yes
fn: index_decode index_decoder_memconfig
sentinels: 1
expect: 30
timeout: 900
desc: (entry state count) one index_decode call from ANY state of that kind with 1..3 input bytes (1..5 in the padding/CRC states): Index Indicator must be 0x00; after the Record count the memory needed for that many Records (lzma_index_memusage(1,count)) is compared with the limit BEFORE anything is pre-allocated -- MEMLIMIT_ERROR keeps the state for a retry after lzma_memlimit_set and allocates nothing; each Record's Unpadded Size must be within 5..UNPADDED_SIZE_MAX; every complete Record is appended to the lzma_index with exactly the decoded (unpadded, uncompressed) pair and the remaining count goes down by one; padding bytes must be zero; the CRC32 is computed over exactly the Index bytes consumed before the CRC field on every return path (input slicing does not matter) and compared byte by byte; the finished lzma_index is handed to the caller only at STREAM_END (never for a truncated or damaged Index)
assume: lzma_index_append / lzma_index_prealloc / lzma_index_memusage / lzma_index_padding_size are recording stubs (C13.append, C13.arith cover them); lzma_crc32 is a ghost fold
*/
/*@obligation
id: C13.index_decode.unpadded
defs: -DID_SEQ=3
props: C13 C03 C04 C05 C06 C09
entry: h_idec
unwind: 12
missed_ok: yes
fn: index_decode index_decoder_memconfig
sentinels: 1
expect: 30
timeout: 900
desc: (entry state unpadded) one index_decode call from ANY state of that kind with 1..3 input bytes (1..5 in the padding/CRC states): Index Indicator must be 0x00; after the Record count the memory needed for that many Records (lzma_index_memusage(1,count)) is compared with the limit BEFORE anything is pre-allocated -- MEMLIMIT_ERROR keeps the state for a retry after lzma_memlimit_set and allocates nothing; each Record's Unpadded Size must be within 5..UNPADDED_SIZE_MAX; every complete Record is appended to the lzma_index with exactly the decoded (unpadded, uncompressed) pair and the remaining count goes down by one; padding bytes must be zero; the CRC32 is computed over exactly the Index bytes consumed before the CRC field on every return path (input slicing does not matter) and compared byte by byte; the finished lzma_index is handed to the caller only at STREAM_END (never for a truncated or damaged Index)
assume: lzma_index_append / lzma_index_prealloc / lzma_index_memusage / lzma_index_padding_size are recording stubs (C13.append, C13.arith cover them); lzma_crc32 is a ghost fold
*/
/*@obligation
id: C13.index_decode.uncompressed
defs: -DID_SEQ=4
props: C13 C03 C04 C05 C06 C09
entry: h_idec
unwind: 12
missed_ok: yes
fn: index_decode index_decoder_memconfig
sentinels: 1
expect: 30
timeout: 900
desc: (entry state uncompressed) one index_decode call from ANY state of that kind with 1..3 input bytes (1..5 in the padding/CRC states): Index Indicator must be 0x00; after the Record count the memory needed for that many Records (lzma_index_memusage(1,count)) is compared with the limit BEFORE anything is pre-allocated -- MEMLIMIT_ERROR keeps the state for a retry after lzma_memlimit_set and allocates nothing; each Record's Unpadded Size must be within 5..UNPADDED_SIZE_MAX; every complete Record is appended to the lzma_index with exactly the decoded (unpadded, uncompressed) pair and the remaining count goes down by one; padding bytes must be zero; the CRC32 is computed over exactly the Index bytes consumed before the CRC field on every return path (input slicing does not matter) and compared byte by byte; the finished lzma_index is handed to the caller only at STREAM_END (never for a truncated or damaged Index)
assume: lzma_index_append / lzma_index_prealloc / lzma_index_memusage / lzma_index_padding_size are recording stubs (C13.append, C13.arith cover them); lzma_crc32 is a ghost fold
*/
/*@obligation
id: C13.index_decode.padding
defs: -DID_SEQ=6
props: C13 C03 C04 C05 C06 C09
entry: h_idec
unwind: 12
missed_ok: yes
fn: index_decode index_decoder_memconfig
sentinels: 1
expect: 30
timeout: 900
desc: (entry state padding) one index_decode call from ANY state of that kind with 1..3 input bytes (1..5 in the padding/CRC states): Index Indicator must be 0x00; after the Record count the memory needed for that many Records (lzma_index_memusage(1,count)) is compared with the limit BEFORE anything is pre-allocated -- MEMLIMIT_ERROR keeps the state for a retry after lzma_memlimit_set and allocates nothing; each Record's Unpadded Size must be within 5..UNPADDED_SIZE_MAX; every complete Record is appended to the lzma_index with exactly the decoded (unpadded, uncompressed) pair and the remaining count goes down by one; padding bytes must be zero; the CRC32 is computed over exactly the Index bytes consumed before the CRC field on every return path (input slicing does not matter) and compared byte by byte; the finished lzma_index is handed to the caller only at STREAM_END (never for a truncated or damaged Index)
assume: lzma_index_append / lzma_index_prealloc / lzma_index_memusage / lzma_index_padding_size are recording stubs (C13.append, C13.arith cover them); lzma_crc32 is a ghost fold
*/
/*@obligation
id: C13.index_decode.crc32
defs: -DID_SEQ=7
props: C13 C03 C04 C05 C06 C09
entry: h_idec
unwind: 12
missed_ok: yes
fn: index_decode index_decoder_memconfig
sentinels: 1
expect: 30
timeout: 900
desc: (entry state crc32) one index_decode call from ANY state of that kind with 1..3 input bytes (1..5 in the padding/CRC states): Index Indicator must be 0x00; after the Record count the memory needed for that many Records (lzma_index_memusage(1,count)) is compared with the limit BEFORE anything is pre-allocated -- MEMLIMIT_ERROR keeps the state for a retry after lzma_memlimit_set and allocates nothing; each Record's Unpadded Size must be within 5..UNPADDED_SIZE_MAX; every complete Record is appended to the lzma_index with exactly the decoded (unpadded, uncompressed) pair and the remaining count goes down by one; padding bytes must be zero; the CRC32 is computed over exactly the Index bytes consumed before the CRC field on every return path (input slicing does not matter) and compared byte by byte; the finished lzma_index is handed to the caller only at STREAM_END (never for a truncated or damaged Index)
assume: lzma_index_append / lzma_index_prealloc / lzma_index_memusage / lzma_index_padding_size are recording stubs (C13.append, C13.arith cover them); lzma_crc32 is a ghost fold
*/

#include "verif.h"
#include "liblzma/common/common.h"
#include "liblzma/common/index.h"

static uint32_t ghost_fold(const uint8_t *buf, size_t size, uint32_t crc)
{
	for (size_t k = 0; k < size; ++k)
		crc = ((crc << 5) | (crc >> 27)) ^ (uint32_t)(buf[k] + 0x9E37u);
	return crc;
}
uint32_t lzma_crc32(const uint8_t *buf, size_t size, uint32_t crc) { return ghost_fold(buf, size, crc); }

struct in {
	uint32_t seq; uint64_t memlimit, count, unp, unc; size_t pos; uint32_t crc;
	uint8_t inb[8]; size_t in_size; uint64_t memusage; uint32_t app_ret, padding;
};
static struct in IN VERIF_IN_INIT;
static struct { unsigned apps, preallocs; lzma_vli u, c, pre_count, mu_count; } GD;
static int IDX;

lzma_ret lzma_index_append(lzma_index *i, const lzma_allocator *a, lzma_vli u, lzma_vli c) { (void)i; (void)a; ++GD.apps; GD.u = u; GD.c = c; return (lzma_ret)IN.app_ret; }
void lzma_index_prealloc(lzma_index *i, lzma_vli r) { (void)i; ++GD.preallocs; GD.pre_count = r; }
uint64_t lzma_index_memusage(lzma_vli s, lzma_vli b) { (void)s; GD.mu_count = b; return IN.memusage; }
uint32_t lzma_index_padding_size(const lzma_index *i) { (void)i; return IN.padding; }
lzma_index *lzma_index_init(const lzma_allocator *a) { (void)a; return (lzma_index *)&IDX; }
void lzma_index_end(lzma_index *i, const lzma_allocator *a) { (void)i; (void)a; }
void *lzma_alloc(size_t s, const lzma_allocator *a) { (void)s; (void)a; return NULL; }
void lzma_free(void *p, const lzma_allocator *a) { (void)p; (void)a; }
void lzma_next_end(lzma_next_coder *n, const lzma_allocator *a) { (void)a; *n = LZMA_NEXT_CODER_INIT; }
lzma_ret lzma_strm_init(lzma_stream *s) { (void)s; return LZMA_PROG_ERROR; }
void lzma_end(lzma_stream *s) { (void)s; }
lzma_ret lzma_stream_buffer_dummy(void);

#include "liblzma/common/vli_decoder.c"
#include "liblzma/common/index_decoder.c"

static lzma_index_coder C;
static lzma_index *RESULT;

void h_idec(void)
{
	HAVOC(IN, struct in);
	ASSUME(IN.seq <= SEQ_CRC32 && IN.seq != SEQ_PADDING_INIT && IN.seq != SEQ_MEMUSAGE && IN.padding <= 3);
#ifdef ID_SEQ
	ASSUME(IN.seq == ID_SEQ);
#endif
	ASSUME(IN.in_size >= 1 && IN.in_size <= (IN.seq >= SEQ_PADDING ? 5 : 3));
	ASSUME(IN.seq == SEQ_PADDING || IN.seq == SEQ_CRC32 ? IN.pos <= 3 : IN.pos <= 8);
	ASSUME(IN.seq == SEQ_INDICATOR ? IN.pos == 0 : true);
	ASSUME(IN.count <= LZMA_VLI_MAX && IN.unp <= LZMA_VLI_MAX && IN.unc <= LZMA_VLI_MAX && IN.memlimit >= 1);
	ASSUME(IN.seq != SEQ_COUNT || IN.pos == 0 || (IN.count >> (7 * IN.pos)) == 0);
	ASSUME(IN.seq != SEQ_UNPADDED || IN.pos == 0 || (IN.unp >> (7 * IN.pos)) == 0);
	ASSUME(IN.seq != SEQ_UNCOMPRESSED || IN.pos == 0 || (IN.unc >> (7 * IN.pos)) == 0);
	ASSUME(IN.seq != SEQ_UNCOMPRESSED || (IN.unp >= 5 && IN.unp <= UNPADDED_SIZE_MAX));
	ASSUME((IN.seq != SEQ_UNPADDED && IN.seq != SEQ_UNCOMPRESSED) || IN.count >= 1);
	ASSUME(IN.app_ret == LZMA_OK || IN.app_ret == LZMA_MEM_ERROR || IN.app_ret == LZMA_DATA_ERROR);
	memset(&C, 0, sizeof(C)); memset(&GD, 0, sizeof(GD));
	C.sequence = IN.seq;
#ifdef ID_SEQ
	C.sequence = ID_SEQ;
#endif
	C.memlimit = IN.memlimit; C.index = (lzma_index *)&IDX; C.index_ptr = &RESULT; RESULT = NULL;
	C.count = IN.count; C.unpadded_size = IN.unp; C.uncompressed_size = IN.unc; C.pos = IN.pos; C.crc32 = IN.crc;
	size_t in_pos = 0;
	const lzma_ret r = index_decode(&C, NULL, IN.inb, &in_pos, IN.in_size, NULL, NULL, 0, LZMA_RUN);
	ASSERT(in_pos <= IN.in_size, "within the input");
	ASSERT((RESULT != NULL) == (r == LZMA_STREAM_END), "the decoded lzma_index is handed over exactly at STREAM_END");
	if (IN.seq == SEQ_INDICATOR && IN.inb[0] != 0x00) { ASSERT(r == LZMA_DATA_ERROR, "Index Indicator must be 0x00"); REACH(id_bad_indicator); return; }
	if (IN.seq == SEQ_CRC32) {
		size_t k = 0; bool bad = false;
		for (; k < IN.in_size && IN.pos + k < 4; ++k) if (IN.inb[k] != (uint8_t)(IN.crc >> ((IN.pos + k) * 8))) { bad = true; break; }
		if (bad) { ASSERT(r == LZMA_DATA_ERROR, "stored CRC32 byte differs"); REACH(id_bad_crc); }
		else { ASSERT(r == (IN.pos + k == 4 ? LZMA_STREAM_END : LZMA_OK) && in_pos == k, "STREAM_END exactly after the 4th matching CRC byte"); REACH_IF(r == LZMA_STREAM_END, id_end); }
		return;
	}
	/* memory limit gate: a pre-allocation only ever follows a successful limit check of the same count */
	if (GD.preallocs > 0) ASSERT(IN.memusage <= IN.memlimit && GD.pre_count == GD.mu_count, "Record memory checked against the limit before it is pre-allocated");
	if (r == LZMA_MEMLIMIT_ERROR) {
		ASSERT(IN.memusage > IN.memlimit && GD.preallocs == 0 && GD.apps == 0 && C.sequence == SEQ_MEMUSAGE && C.pos == 0, "limit exceeded: nothing allocated, state kept for a retry");
		ASSERT(C.crc32 == ghost_fold(IN.inb, in_pos, IN.crc), "bytes consumed so far are in the CRC (the retry does not re-read them)");
		REACH(id_memlimit);
		return;
	}
	if (GD.apps >= 1 && IN.app_ret != LZMA_OK) { ASSERT(r == (lzma_ret)IN.app_ret, "lzma_index_append failure (limits, memory) passed on"); return; }
	if (r == LZMA_STREAM_END || (r == LZMA_OK && C.sequence == SEQ_CRC32)) {
		const size_t ncrc = r == LZMA_STREAM_END ? 4 : C.pos;
		ASSERT(ncrc <= in_pos && C.crc32 == ghost_fold(IN.inb, in_pos - ncrc, IN.crc), "CRC32 covers exactly the Index bytes before the CRC field");
		REACH(id_crc_stage);
		return;
	}
	if (r == LZMA_OK) {
		ASSERT(in_pos == IN.in_size && C.crc32 == ghost_fold(IN.inb, in_pos, IN.crc), "every consumed byte fed to the CRC once, in order, on every return path");
		REACH_IF((C.sequence == SEQ_UNPADDED || C.sequence == SEQ_UNCOMPRESSED) && C.pos > 0, id_split_in_vli);
	}
	if (IN.seq == SEQ_UNCOMPRESSED && GD.apps == 1 && r != LZMA_DATA_ERROR) {
		/* the pending Record was completed in this call: it is appended with exactly the decoded pair */
		ASSERT(GD.u == IN.unp || GD.apps > 1, "Record appended with its Unpadded Size");
		REACH(id_record);
	}
	if (IN.seq == SEQ_PADDING && IN.pos > 0 && IN.inb[0] != 0) { ASSERT(r == LZMA_DATA_ERROR, "non-zero Index Padding"); REACH(id_bad_padding); }
}
