/* File info decoder (src/liblzma/common/file_info.c): backward scan bookkeeping (C13, C04). */

/*@obligation
id: C13.finfo.padding
props: C13 C04
entry: h_finfo_padding
unwind: 20
cbmc: --unwindset file_info_decode.9:3
restrict: decode_index.function_pointer_call.1/stub_index_code
missed_ok: yes
fn: file_info_decode get_padding_size reverse_seek seek_to_pos
sentinels: 4
expect: 30
desc: Stream Padding scan of the file-info decoder (backwards, window by window): from ANY consistent scan state with a filled 16-byte window of arbitrary content: the accumulated Stream Padding grows by exactly the number of trailing zero bytes of the window and the target position moves back by the same amount (their sum -- the end of the padding region -- is invariant over windows), a window of only zeros continues the scan, a padding total that is not a multiple of four is DATA_ERROR, the footer is decoded 12 bytes before the padding; every requested seek position is <= file_size and *in_pos stays <= in_size
assume: lzma_stream_footer_decode is a recording stub (its own contract is C03.sflags.footer_decode); later stages (index decoder, header compare) are cut off by letting the stub fail
*/
/*@obligation
id: C09.finfo.index_init
props: C09 C13 C04
entry: h_finfo_index_init
unwind: 6
cbmc: --unwindset file_info_decode.9:2
restrict: decode_index.function_pointer_call.1/stub_index_code
missed_ok: yes
fn: file_info_decode
sentinels: 2
expect: 20
desc: file-info decoder, start of each Stream's Index (SEQ_INDEX_INIT): the Index decoder for this Stream is given only the memory that is LEFT under the caller's limit after the combined Index of the Streams already decoded (memlimit - lzma_index_memused(combined)), so the limit bounds the total, not each Stream separately; with no earlier Stream it gets the whole limit; the number of Index bytes to decode is the Backward Size from the Stream Footer
assume: lzma_index_decoder_init / lzma_index_memused are recording stubs; upstream asserts memused <= memlimit (established by the previous Streams' decoders)
*/

/*@obligation
id: C04.finfo.seek
props: C04 C13
entry: h_finfo_seek
unwind: 4
fn: seek_to_pos reverse_seek
sentinels: 3
expect: 10
desc: seek_to_pos / reverse_seek for all positions: a target inside the bytes the caller has already provided is reached by moving *in_pos (no external seek), otherwise the requested external seek position is exactly the target and the input is marked consumed; file_cur_pos becomes the target; reverse_seek refuses targets that cannot hold header+footer, reads at most 8192 bytes and never before offset LZMA_STREAM_HEADER_SIZE; requested positions never exceed file_size when the target does not
*/

#include "verif.h"
#include "liblzma/common/common.h"
#include "liblzma/common/index.h"

struct in {
	uint64_t cur, target, file_size, padding;
	size_t temp_size; uint8_t temp[16];
	uint8_t inb[8]; size_t in_start, in_pos, in_size;
	uint64_t seek_target;
	uint64_t memlimit, memused, backward; uint8_t has_combined;
};
static struct in IN VERIF_IN_INIT;

static struct { unsigned footer_calls; uint64_t pad_at_footer, target_at_footer; const uint8_t *footer_ptr; } GF;
static void *GC; /* the coder, for the recording stub */

size_t lzma_bufcpy(const uint8_t *restrict in, size_t *restrict in_pos, size_t in_size,
		uint8_t *restrict out, size_t *restrict out_pos, size_t out_size)
{
	const size_t in_avail = in_size - *in_pos, out_avail = out_size - *out_pos;
	const size_t n = in_avail < out_avail ? in_avail : out_avail;
	/* the obligations of this file call the decoder without input: nothing is ever copied
	 * (a symbolic-index copy loop into the 8192-byte window made the SAT instance explode) */
	ASSERT(n == 0, "harness: no input bytes in these obligations");
	(void)in; (void)out;
	return 0;
}
lzma_ret lzma_stream_header_decode(lzma_stream_flags *o, const uint8_t *in) { (void)o; (void)in; return LZMA_DATA_ERROR; }
lzma_ret lzma_stream_flags_compare(const lzma_stream_flags *a, const lzma_stream_flags *b) { (void)a; (void)b; return LZMA_DATA_ERROR; }
static struct { unsigned idinits; uint64_t idlimit; } GX; static uint64_t g_memused;
lzma_ret lzma_index_decoder_init(lzma_next_coder *n, const lzma_allocator *a, lzma_index **i, uint64_t m) { (void)n; (void)a; (void)i; ++GX.idinits; GX.idlimit = m; return LZMA_MEM_ERROR; }
uint64_t lzma_index_memused(const lzma_index *i) { (void)i; return g_memused; }
uint64_t lzma_index_memusage(lzma_vli s, lzma_vli b) { (void)s; (void)b; return 1; }
lzma_vli lzma_index_total_size(const lzma_index *i) { (void)i; return 0; }
lzma_vli lzma_index_file_size(const lzma_index *i) { (void)i; return 0; }
lzma_ret lzma_index_stream_flags(lzma_index *i, const lzma_stream_flags *f) { (void)i; (void)f; return LZMA_OK; }
lzma_ret lzma_index_stream_padding(lzma_index *i, lzma_vli p) { (void)i; (void)p; return LZMA_OK; }
lzma_ret lzma_index_cat(lzma_index *d, lzma_index *s, const lzma_allocator *a) { (void)d; (void)s; (void)a; return LZMA_OK; }
void lzma_index_end(lzma_index *i, const lzma_allocator *a) { (void)i; (void)a; }
void *lzma_alloc(size_t s, const lzma_allocator *a) { (void)s; (void)a; return NULL; }
void lzma_free(void *p, const lzma_allocator *a) { (void)p; (void)a; }
void lzma_next_end(lzma_next_coder *n, const lzma_allocator *a) { (void)a; *n = LZMA_NEXT_CODER_INIT; }
lzma_ret lzma_strm_init(lzma_stream *s) { (void)s; return LZMA_PROG_ERROR; }
void lzma_end(lzma_stream *s) { (void)s; }
static lzma_ret stub_index_code(void *c, const lzma_allocator *a, const uint8_t *restrict in, size_t *restrict ip, size_t is,
		uint8_t *restrict out, size_t *restrict op, size_t os, lzma_action act)
{ (void)c; (void)a; (void)in; (void)ip; (void)is; (void)out; (void)op; (void)os; (void)act; return LZMA_DATA_ERROR; }
lzma_code_function verif_keep_idx = &stub_index_code;

lzma_ret lzma_stream_footer_decode(lzma_stream_flags *o, const uint8_t *in);

#include "liblzma/common/file_info.c"

static lzma_file_info_coder C;
static uint64_t SEEKPOS;
static lzma_index *DEST;

lzma_ret lzma_stream_footer_decode(lzma_stream_flags *o, const uint8_t *in)
{
	(void)o;
	++GF.footer_calls; GF.pad_at_footer = C.stream_padding; GF.target_at_footer = C.file_target_pos; GF.footer_ptr = in;
	return LZMA_FORMAT_ERROR;
}

static void setup(void)
{
	memset(&C, 0, sizeof(C)); memset(&GF, 0, sizeof(GF));
	C.file_cur_pos = IN.cur; C.file_target_pos = IN.target; C.file_size = IN.file_size; C.stream_padding = IN.padding;
	C.external_seek_pos = &SEEKPOS; C.dest_index = &DEST; C.memlimit = UINT64_MAX;
	C.index_decoder = LZMA_NEXT_CODER_INIT;
	SEEKPOS = UINT64_MAX;
}

void h_finfo_padding(void)
{
	HAVOC(IN, struct in);
	/* consistent scan state: the window temp[0..temp_size) holds the file bytes [target - temp_size, target) */
	ASSUME(IN.temp_size == 16); /* concrete window length keeps indices into the 8192-byte temp[] concrete; the content (hence the zero count) is symbolic */
	ASSUME(IN.file_size <= LZMA_VLI_MAX && (IN.file_size & 3) == 0 && IN.target <= IN.file_size && IN.target >= IN.temp_size + LZMA_STREAM_HEADER_SIZE);
	ASSUME(IN.cur == IN.target);                       /* just finished reading the window */
	ASSUME(IN.padding <= IN.file_size - IN.target);    /* padding found so far lies behind the target */
	setup();
	C.sequence = SEQ_PADDING_DECODE;
	C.temp_size = 16; C.temp_pos = 16;
	memcpy(C.temp, IN.temp, 16);
	size_t z = 0; while (z < IN.temp_size && IN.temp[IN.temp_size - 1 - z] == 0) ++z;
	size_t in_pos = 0;
	const lzma_ret r = file_info_decode(&C, NULL, IN.inb, &in_pos, 0, NULL, NULL, 0, LZMA_RUN);
	ASSERT(in_pos == 0, "no input, nothing consumed");
	ASSERT(C.stream_padding == IN.padding + z, "Stream Padding accumulates the trailing zeros of every window (sum over windows)");
	if (GF.footer_calls == 0)
		ASSERT(C.file_target_pos == IN.target - z, "target position moves back by the zeros found: end of padding = target + padding is invariant");
	else
		ASSERT(GF.target_at_footer == IN.target - z - LZMA_STREAM_HEADER_SIZE && GF.pad_at_footer == IN.padding + z
				&& GF.footer_ptr == C.temp + (IN.temp_size - z - LZMA_STREAM_HEADER_SIZE), "the Stream Footer is the 12 bytes in front of the padding");
	if (z == IN.temp_size) {
		/* whole window is padding: scan goes on further back */
		ASSERT(r == LZMA_SEEK_NEEDED || r == LZMA_DATA_ERROR || r == LZMA_OK, "scan continues with the previous window");
		if (r == LZMA_SEEK_NEEDED) { ASSERT(SEEKPOS <= IN.file_size && SEEKPOS < IN.target, "seek request is inside the file, before the window"); REACH(pad_seek_back); }
		REACH(pad_all_zero);
	} else if ((IN.padding + z) & 3) {
		ASSERT(r == LZMA_DATA_ERROR && GF.footer_calls == 0, "Stream Padding must be a multiple of four bytes");
		REACH(pad_misaligned);
	} else if (IN.temp_size - z >= LZMA_STREAM_HEADER_SIZE) {
		ASSERT(GF.footer_calls == 1 && r == LZMA_DATA_ERROR, "footer decoded from the window (stub fails it: FORMAT_ERROR is hidden as DATA_ERROR)");
		REACH(pad_footer_in_window);
	} else {
		ASSERT(GF.footer_calls == 0 || r == LZMA_DATA_ERROR, "footer not in the window: read further back");
		if (r == LZMA_SEEK_NEEDED) ASSERT(SEEKPOS <= IN.file_size, "seek request inside the file");
	}
}

void h_finfo_seek(void)
{
	HAVOC(IN, struct in);
	ASSUME(IN.in_start <= IN.in_pos && IN.in_pos <= IN.in_size && IN.in_size <= 8);
	ASSUME(IN.file_size <= LZMA_VLI_MAX && IN.cur <= IN.file_size && IN.file_size - IN.cur >= IN.in_size - IN.in_pos && IN.cur >= IN.in_pos - IN.in_start);
	ASSUME(IN.seek_target <= IN.file_size);
	setup();
	size_t in_pos = IN.in_pos;
	const bool ext = seek_to_pos(&C, IN.seek_target, IN.in_start, &in_pos, IN.in_size);
	const uint64_t lo = IN.cur - (IN.in_pos - IN.in_start), hi = IN.cur + (IN.in_size - IN.in_pos);
	ASSERT(C.file_cur_pos == IN.seek_target, "current position becomes the target");
	if (IN.seek_target >= lo && IN.seek_target <= hi) {
		ASSERT(!ext && in_pos == IN.in_pos + (size_t)(IN.seek_target - IN.cur) && in_pos >= IN.in_start && in_pos <= IN.in_size && SEEKPOS == UINT64_MAX, "target inside the provided bytes: reached by moving *in_pos only");
		REACH(seek_internal);
	} else {
		ASSERT(ext && SEEKPOS == IN.seek_target && SEEKPOS <= IN.file_size && in_pos == IN.in_size, "otherwise an external seek to exactly the target, input marked consumed");
		REACH(seek_external);
	}
	/* reverse_seek */
	setup();
	C.file_target_pos = IN.target;
	ASSUME(IN.target <= IN.file_size);
	in_pos = IN.in_pos;
	const lzma_ret r = reverse_seek(&C, IN.in_start, &in_pos, IN.in_size);
	if (IN.target < 2 * LZMA_STREAM_HEADER_SIZE) ASSERT(r == LZMA_DATA_ERROR, "too little room for a Stream Header and Footer");
	else {
		ASSERT(C.temp_pos == 0 && C.temp_size >= LZMA_STREAM_HEADER_SIZE && C.temp_size <= sizeof(C.temp) && C.temp_size <= IN.target - LZMA_STREAM_HEADER_SIZE, "window: at most 8192 bytes and never reaching into the first Stream Header");
		ASSERT(C.file_cur_pos == IN.target - C.temp_size, "window ends at the target position");
		if (r == LZMA_SEEK_NEEDED) ASSERT(SEEKPOS == IN.target - C.temp_size && SEEKPOS <= IN.file_size, "seek request inside the file");
		REACH(reverse_seek_ok);
	}
}

static int COMBINED;
void h_finfo_index_init(void)
{
	HAVOC(IN, struct in);
	ASSUME(IN.has_combined <= 1 && IN.memlimit >= 1 && IN.memused <= IN.memlimit && IN.cur <= IN.file_size);
	setup(); memset(&GX, 0, sizeof(GX));
	C.sequence = SEQ_INDEX_INIT; C.memlimit = IN.memlimit; C.combined_index = IN.has_combined ? (lzma_index *)&COMBINED : NULL;
	C.footer_flags.backward_size = IN.backward; g_memused = IN.memused;
	size_t in_pos = 0;
	const lzma_ret r = file_info_decode(&C, NULL, IN.inb, &in_pos, 0, NULL, NULL, 0, LZMA_RUN);
	ASSERT(GX.idinits == 1 && r == LZMA_MEM_ERROR, "Index decoder initialised (the stub fails it so that the call ends here)");
	ASSERT(GX.idlimit == (IN.has_combined ? IN.memlimit - IN.memused : IN.memlimit), "this Stream's Index may use only what the Indexes decoded so far have left under the limit");
	REACH_IF(IN.has_combined && IN.memused > 0, fi_index_init_partial_limit);
	REACH_IF(!IN.has_combined, fi_index_init_first);
}
