/* LZ encoder window management (src/liblzma/lz/lz_encoder.c): C01, C06, C12, C04. */

/*@obligation
id: C06.lz.prepare
props: C06 C01 C09 C04
entry: h_lz_prepare
unwind: 4
fn: lz_encoder_prepare
sentinels: 2
expect: 10
desc: lz_encoder_prepare for ALL option values: invalid options (dictionary size out of range, nice_len > match_len_max, unknown match finder) are refused; otherwise history kept = before_size + dict_size, look-ahead kept = after_size + match_len_max (the encoder must never see where the currently buffered input ends, or its output would depend on how the input was sliced), buffer size >= history + look-ahead + 2^19 with no 32-bit wrap, match_len_max/nice_len/cyclic_size = dict_size+1 taken from the options, hash/son element counts consistent with the match finder, old buffers released when sizes change
assume: lzma_free is a recording stub
*/
/*@obligation
id: C01.lz.move_window
props: C01 C04 C06
entry: h_move_window
unwind: 4
fn: move_window
sentinels: 1
expect: 10
desc: move_window on a small concrete window (64 bytes) with every consistent position state: the move distance is a multiple of 16 and at most read_pos - keep_size_before (at least keep_size_before bytes of history stay available), every byte at index k >= distance moves to k - distance (ghost index), offset + read_pos (the absolute position) is unchanged, read_pos/read_limit/write_pos all shift by the same distance, nothing outside the buffer is touched
*/
/*@obligation
id: C12.lz.fill_window
props: C12 C06 C01 C04
entry: h_fill_window
unwind: 14
restrict: fill_window.function_pointer_call.1/stub_next_code fill_window.function_pointer_call.2/stub_skip
fn: fill_window
sentinels: 4
expect: 20
desc: fill_window (no next filter) from every consistent window state with up to 8 input bytes and every action: input is copied behind write_pos (never past the buffer), LZMA_MEMCMPLEN_EXTRA zero bytes follow the data; with a flush/finish action and all input consumed the action is latched and the encoder may use EVERY byte (read_limit = write_pos), otherwise the last keep_size_after bytes stay unreadable (read_limit = write_pos - keep_size_after) so the result does not depend on where the input piece ended; bytes skipped while waiting (pending) are replayed through the match finder exactly once, with read_pos rewound by that amount
assume: mf->skip (match finder) is a recording stub
*/
/*@obligation
id: C12.lz.encode
props: C12 C04
entry: h_lz_encode
unwind: 4
restrict: lz_encode.function_pointer_call.1/stub_lz_code fill_window.function_pointer_call.1/stub_next_code fill_window.function_pointer_call.2/stub_skip
fn: lz_encode
sentinels: 2
expect: 20
desc: lz_encode: whenever the LZ-based encoder returns something other than LZMA_OK (including LZMA_STREAM_END after a completed flush/finish) the latched action is reset to LZMA_RUN, so the next call fills the window again and honours keep_size_after; the window is refilled only when the encoder has used everything it may read
assume: coder->lz.code (lzma2_encode / lzma_encode) is a stub with nondeterministic result
*/

/*@obligation
id: C01.lz.init
props: C01 C10 C04
entry: h_lz_init
unwind: 20
restrict: lz_encoder_init.function_pointer_call.1/stub_skip
fn: lz_encoder_init
sentinels: 3
expect: 20
desc: lz_encoder_init on a small concrete window (16 bytes) with an arbitrary preset dictionary of 0..24 bytes: positions are reset (read_pos, read_ahead, read_limit, pending, cyclic_pos = 0, offset = cyclic_size); when the preset dictionary is larger than the window the encoder keeps its TAIL (the last 'size' bytes -- the same bytes the decoder keeps), byte k of the window = byte (preset_size - write_pos + k) of the dictionary; the dictionary is fed through the match finder exactly once (skip(write_pos)) under a flush action so that every byte is usable, and the action is LZMA_RUN afterwards; if the hash or son allocation fails both are released and NULL (a retry starts clean)
assume: mf->skip is a recording stub; lzma_alloc/lzma_alloc_zero are stubs that fail or hand out static arrays
*/

/*@obligation
id: C09.lz_enc.memusage
props: C09
entry: h_lz_memusage
unwind: 20
restrict: lz_encoder_init.function_pointer_call.1/stub_skip
fn: lzma_lz_encoder_memusage lz_encoder_prepare lz_encoder_init
sentinels: 3
expect: 20
desc: lzma_lz_encoder_memusage for ALL option values: UINT64_MAX exactly when lz_encoder_prepare refuses the options; otherwise it equals window size + 4 * (hash entries + son entries) + sizeof(lzma_coder) for exactly the sizes lz_encoder_prepare computes for a real encoder with the same options (no 64-bit wrap); and lz_encoder_init requests from the allocator exactly window size + LZMA_MEMCMPLEN_EXTRA, 4 * hash entries and 4 * son entries -- so the estimate is an upper bound of what the LZ encoder allocates up to the constant LZMA_MEMCMPLEN_EXTRA (0 or 16 bytes, inside LZMA_MEMUSAGE_BASE's allowance)
assume: lzma_alloc/lzma_alloc_zero are recording stubs handing out static arrays (the request sizes are what is compared)
*/

#include "verif.h"
#include "liblzma/common/common.h"

static struct { unsigned frees, skips, codes; uint32_t skip_amount, skip_read_pos; unsigned allocs; size_t req[4]; bool zeroed[4]; } GW;
static uint8_t BUFPOOL[16 + 32]; static bool g_buf_wanted;
static uint32_t HPOOL[8], SPOOL[8]; static uint8_t g_fail_hash, g_fail_son;
void *lzma_alloc(size_t s, const lzma_allocator *a) { (void)a; if (GW.allocs < 4) { GW.req[GW.allocs] = s; GW.zeroed[GW.allocs] = false; } ++GW.allocs;
	if (g_buf_wanted) { g_buf_wanted = false; return s <= sizeof(BUFPOOL) ? BUFPOOL : NULL; }
	return (g_fail_son || s > sizeof(SPOOL)) ? NULL : SPOOL; }
void *lzma_alloc_zero(size_t s, const lzma_allocator *a) { (void)a; if (GW.allocs < 4) { GW.req[GW.allocs] = s; GW.zeroed[GW.allocs] = true; } ++GW.allocs; return (g_fail_hash || s > sizeof(HPOOL)) ? NULL : HPOOL; }
void lzma_free(void *p, const lzma_allocator *a) { (void)a; if (p != NULL) ++GW.frees; }
void lzma_next_end(lzma_next_coder *n, const lzma_allocator *a) { (void)a; *n = LZMA_NEXT_CODER_INIT; }
lzma_ret lzma_next_filter_init(lzma_next_coder *n, const lzma_allocator *a, const lzma_filter_info *f) { (void)n; (void)a; (void)f; return LZMA_OK; }
lzma_ret lzma_next_filter_update(lzma_next_coder *n, const lzma_allocator *a, const lzma_filter *f) { (void)n; (void)a; (void)f; return LZMA_OK; }
size_t lzma_bufcpy(const uint8_t *restrict in, size_t *restrict in_pos, size_t in_size,
		uint8_t *restrict out, size_t *restrict out_pos, size_t out_size)
{
	const size_t in_avail = in_size - *in_pos, out_avail = out_size - *out_pos;
	const size_t n = in_avail < out_avail ? in_avail : out_avail;
	for (size_t k = 0; k < n; ++k) out[*out_pos + k] = in[*in_pos + k];
	*in_pos += n; *out_pos += n;
	return n;
}
/* match finders: only their addresses are taken by lz_encoder_prepare */
#include "liblzma/lz/lz_encoder.h"
uint32_t lzma_mf_hc3_find(lzma_mf *m, lzma_match *x) { (void)m; (void)x; return 0; } void lzma_mf_hc3_skip(lzma_mf *m, uint32_t n) { (void)m; (void)n; }
uint32_t lzma_mf_hc4_find(lzma_mf *m, lzma_match *x) { (void)m; (void)x; return 0; } void lzma_mf_hc4_skip(lzma_mf *m, uint32_t n) { (void)m; (void)n; }
uint32_t lzma_mf_bt2_find(lzma_mf *m, lzma_match *x) { (void)m; (void)x; return 0; } void lzma_mf_bt2_skip(lzma_mf *m, uint32_t n) { (void)m; (void)n; }
uint32_t lzma_mf_bt3_find(lzma_mf *m, lzma_match *x) { (void)m; (void)x; return 0; } void lzma_mf_bt3_skip(lzma_mf *m, uint32_t n) { (void)m; (void)n; }
uint32_t lzma_mf_bt4_find(lzma_mf *m, lzma_match *x) { (void)m; (void)x; return 0; } void lzma_mf_bt4_skip(lzma_mf *m, uint32_t n) { (void)m; (void)n; }

#include "liblzma/lz/lz_encoder.c"

struct in {
	/* prepare */
	uint32_t before, dict, after, mlm, nice, mfid, depth;
	uint32_t old_size, old_hash, old_sons; uint8_t has_buf, has_hash;
	/* window state */
	uint32_t size_unused, ksb, ksa, offset, read_pos, read_limit, write_pos, pending, mf_action;
	uint8_t buf[64];
	uint32_t k;
	uint8_t inb[8]; size_t in_size; uint32_t action;
	uint32_t code_ret;
	uint8_t preset[24]; uint32_t preset_size; uint8_t has_hash2, fail_hash, fail_son, preset_null;
};
static struct in IN VERIF_IN_INIT;

static void stub_skip(lzma_mf *mf, uint32_t amount) { ++GW.skips; GW.skip_amount = amount; GW.skip_read_pos = mf->read_pos; mf->read_pos += amount; }
static lzma_ret stub_next_code(void *c, const lzma_allocator *a, const uint8_t *restrict in, size_t *restrict ip, size_t is,
		uint8_t *restrict out, size_t *restrict op, size_t os, lzma_action act)
{ (void)c; (void)a; (void)in; (void)ip; (void)is; (void)out; (void)op; (void)os; (void)act; return LZMA_OK; }
static lzma_ret stub_lz_code(void *c, lzma_mf *restrict mf, uint8_t *restrict out, size_t *restrict out_pos, size_t out_size)
{ (void)c; (void)mf; (void)out; ++GW.codes; if (*out_pos < out_size) ++*out_pos; return (lzma_ret)IN.code_ret; }

/* ---------------- prepare ---------------- */
static uint8_t DUMMYBUF[8]; static uint32_t DUMMYH[2], DUMMYS[2];
void h_lz_prepare(void)
{
	HAVOC(IN, struct in);
	ASSUME(IN.has_buf <= 1 && IN.has_hash <= 1);
	/* callers (LZMA, LZMA2) keep these small: bounded here so that the sums below cannot wrap 32 bits */
	ASSUME(IN.before <= (1u << 17) && IN.after <= (1u << 13) && IN.mlm <= 273 && IN.mlm >= 2);
	lzma_mf mf; memset(&mf, 0, sizeof(mf));
	mf.size = IN.old_size; mf.hash_count = IN.old_hash; mf.sons_count = IN.old_sons;
	mf.buffer = IN.has_buf ? DUMMYBUF : NULL; mf.hash = IN.has_hash ? DUMMYH : NULL; mf.son = IN.has_hash ? DUMMYS : NULL;
	lzma_lz_options o; memset(&o, 0, sizeof(o));
	o.before_size = IN.before; o.dict_size = IN.dict; o.after_size = IN.after; o.match_len_max = IN.mlm; o.nice_len = IN.nice;
	o.match_finder = (lzma_match_finder)IN.mfid; o.depth = IN.depth;
	memset(&GW, 0, sizeof(GW));
	/* upstream asserts hash_bytes <= nice_len; guaranteed by the LZMA option validation (is_options_valid) */
	ASSUME(IN.nice >= (IN.mfid & 0x0F));
	const bool bad = lz_encoder_prepare(&mf, NULL, &o);
	const bool mf_ok = IN.mfid == LZMA_MF_HC3 || IN.mfid == LZMA_MF_HC4 || IN.mfid == LZMA_MF_BT2 || IN.mfid == LZMA_MF_BT3 || IN.mfid == LZMA_MF_BT4;
	const bool opt_ok = IN.dict >= 4096 && IN.dict <= (1u << 30) + (1u << 29) && IN.nice <= IN.mlm;
	if (!opt_ok) { ASSERT(bad, "invalid dictionary size / nice_len refused"); REACH(prep_refused); return; }
	if (!mf_ok) { ASSERT(bad, "unknown match finder refused"); return; }
	ASSERT(!bad, "valid options accepted");
	ASSERT(mf.keep_size_before == IN.before + IN.dict, "history kept: before_size + dict_size");
	ASSERT(mf.keep_size_after == IN.after + IN.mlm, "look-ahead kept: after_size + match_len_max");
	ASSERT((uint64_t)mf.size >= (uint64_t)mf.keep_size_before + mf.keep_size_after + (1u << 19), "window is larger than history + look-ahead (room to make progress), no 32-bit wrap");
	ASSERT(mf.match_len_max == IN.mlm && mf.nice_len == IN.nice && mf.cyclic_size == IN.dict + 1, "match limits and cyclic buffer size from the options");
	ASSERT(mf.sons_count == ((IN.mfid & 0x10) ? 2 * (IN.dict + 1) : IN.dict + 1), "son entries: one per dictionary position (two for binary trees)");
	ASSERT(mf.hash_mask + 1 + ((IN.mfid & 0x0F) > 2 ? 1024u : 0) + ((IN.mfid & 0x0F) > 3 ? 65536u : 0) == mf.hash_count, "hash table element count");
	ASSERT(mf.depth != 0, "search depth never zero");
	if (IN.has_buf && IN.old_size != mf.size) ASSERT(mf.buffer == NULL, "a window of another size is released");
	if (IN.has_hash && (IN.old_hash != mf.hash_count || IN.old_sons != mf.sons_count)) ASSERT(mf.hash == NULL && mf.son == NULL, "hash/son of another size are released");
	REACH(prep_ok);
}

/* ---------------- move_window ---------------- */
#define WSIZE 64
static uint8_t WBUF[WSIZE + 16];
static lzma_coder C;

static void setup_mf(void)
{
	memset(&C, 0, sizeof(C)); memset(&GW, 0, sizeof(GW));
	memcpy(WBUF, IN.buf, WSIZE);
	C.mf.buffer = WBUF; C.mf.size = WSIZE; C.mf.keep_size_before = IN.ksb; C.mf.keep_size_after = IN.ksa;
	C.mf.offset = IN.offset; C.mf.read_pos = IN.read_pos; C.mf.read_limit = IN.read_limit; C.mf.write_pos = IN.write_pos;
	C.mf.pending = IN.pending; C.mf.action = (lzma_action)IN.mf_action; C.mf.skip = &stub_skip;
	C.next = LZMA_NEXT_CODER_INIT; C.lz.code = &stub_lz_code;
}

static bool wf_window(void)
{
	return IN.read_pos <= IN.write_pos && IN.write_pos <= WSIZE && IN.read_limit <= IN.write_pos
		&& IN.ksb + IN.ksa < WSIZE && IN.pending <= IN.read_pos && IN.mf_action <= 4 && IN.offset <= (1u << 30);
}

void h_move_window(void)
{
	HAVOC(IN, struct in);
	ASSUME(wf_window() && IN.read_pos > IN.ksb && IN.k < WSIZE && IN.ksb >= 1); /* keep_size_before >= dict_size >= 4096 in reality */
	ASSUME(IN.read_limit >= ((IN.read_pos - IN.ksb) & ~15u)); /* read_limit is never behind the data that is dropped */
	setup_mf();
	move_window(&C.mf);
	const uint32_t d = IN.read_pos - C.mf.read_pos;
	ASSERT((d & 15) == 0, "move distance is a multiple of 16 (alignment of the hash/compare code)");
	ASSERT(d <= IN.read_pos - IN.ksb, "at least keep_size_before bytes of history remain before read_pos");
	ASSERT(IN.read_pos - IN.ksb - d < 16, "and no more than needed is kept");
	ASSERT(C.mf.offset + C.mf.read_pos == IN.offset + IN.read_pos, "absolute position offset + read_pos unchanged");
	ASSERT(C.mf.write_pos == IN.write_pos - d && C.mf.read_limit == IN.read_limit - d && C.mf.offset == IN.offset + d, "all positions shift by the same distance");
	if (IN.k >= d && IN.k < IN.write_pos)
		ASSERT(WBUF[IN.k - d] == IN.buf[IN.k], "every retained byte keeps its value at its new index");
	ASSERT(WBUF[WSIZE] == 0 && WBUF[WSIZE + 15] == 0, "nothing beyond the window touched");
	REACH_IF(d == 32, move_32);
}

/* ---------------- fill_window ---------------- */
void h_fill_window(void)
{
	HAVOC(IN, struct in);
	ASSUME(wf_window() && IN.in_size <= 8 && IN.action <= 4);
	ASSUME(IN.mf_action == LZMA_RUN && IN.read_pos >= IN.read_limit); /* lz_encode's call condition */
	ASSUME(IN.read_pos <= IN.ksb || IN.read_pos < WSIZE - IN.ksa); /* no window move in this obligation (C01.lz.move_window) */
	ASSUME(IN.read_pos < WSIZE - IN.ksa);
	setup_mf();
	size_t in_pos = 0;
	const lzma_ret r = fill_window(&C, NULL, IN.inb, &in_pos, IN.in_size, (lzma_action)IN.action);
	ASSERT(r == LZMA_OK, "fill_window succeeds without a next filter");
	const size_t room = WSIZE - IN.write_pos;
	const size_t n = IN.in_size < room ? IN.in_size : room;
	ASSERT(in_pos == n && C.mf.write_pos == IN.write_pos + n, "copies min(input, room) bytes behind write_pos");
	if (n > 0) ASSERT(WBUF[IN.write_pos] == IN.inb[0] && WBUF[IN.write_pos + n - 1] == IN.inb[n - 1], "copied bytes");
	ASSERT(WBUF[C.mf.write_pos] == 0 && WBUF[C.mf.write_pos + 7] == 0, "LZMA_MEMCMPLEN_EXTRA zero bytes after the data");
	const bool all_in = IN.action != LZMA_RUN && n == IN.in_size;
	if (all_in) {
		ASSERT(C.mf.action == (lzma_action)IN.action && C.mf.read_limit == C.mf.write_pos, "flush/finish with all input consumed: action latched, every byte may be encoded");
		REACH(fill_flush);
	} else {
		ASSERT(C.mf.action == LZMA_RUN, "no action latched while input remains / LZMA_RUN");
		if (C.mf.write_pos > IN.ksa) ASSERT(C.mf.read_limit == C.mf.write_pos - IN.ksa, "the last keep_size_after bytes are not yet readable");
		else ASSERT(C.mf.read_limit == IN.read_limit, "too little data: limit unchanged");
		REACH(fill_run);
	}
	if (IN.pending > 0 && IN.read_pos < C.mf.read_limit) {
		ASSERT(GW.skips == 1 && GW.skip_amount == IN.pending && GW.skip_read_pos == IN.read_pos - IN.pending && C.mf.pending == 0, "pending bytes replayed through the match finder once, from read_pos - pending");
		REACH(fill_pending);
	} else {
		ASSERT(GW.skips == 0 && C.mf.pending == IN.pending && C.mf.read_pos == IN.read_pos, "nothing replayed");
		REACH_IF(IN.pending > 0, fill_pending_kept);
	}
}

/* ---------------- lz_encode ---------------- */
static uint8_t OUTB[4];
/* keep the stubs' symbols alive for --restrict-function-pointer */
lzma_code_function verif_keep_next = &stub_next_code;
void (*verif_keep_skip)(lzma_mf *, uint32_t) = &stub_skip;
void h_lz_encode(void)
{
	HAVOC(IN, struct in);
	ASSUME(wf_window() && IN.in_size <= 2 && IN.action <= 4 && IN.code_ret <= 12 && IN.code_ret != LZMA_OK);
	ASSUME(IN.read_pos < WSIZE - IN.ksa);
	setup_mf();
	size_t in_pos = 0, out_pos = 0;
	const lzma_ret r = lz_encode(&C, NULL, IN.inb, &in_pos, IN.in_size, OUTB, &out_pos, 4, (lzma_action)IN.action);
	if (GW.codes > 0) {
		ASSERT(r == (lzma_ret)IN.code_ret && C.mf.action == LZMA_RUN, "any non-OK result of the LZ encoder (incl. STREAM_END of a flush) un-latches the action");
		REACH(lzenc_unlatched);
	} else {
		ASSERT(r == LZMA_OK && IN.in_size == 0 && IN.action == LZMA_RUN, "nothing to do without input in LZMA_RUN");
		REACH(lzenc_idle);
	}
}

/* ---------------- lz_encoder_init ---------------- */
void h_lz_init(void)
{
	HAVOC(IN, struct in);
	ASSUME(IN.preset_size <= 24 && IN.has_hash2 <= 1 && IN.fail_hash <= 1 && IN.fail_son <= 1 && IN.preset_null <= 1 && IN.k < 16);
	static uint8_t W16[16 + 16];
	lzma_mf mf; memset(&mf, 0, sizeof(mf)); memset(&GW, 0, sizeof(GW));
	mf.buffer = W16; mf.size = 16; mf.cyclic_size = 9; mf.hash_count = 4; mf.sons_count = 4; mf.skip = &stub_skip;
	mf.read_pos = 5; mf.read_ahead = 1; mf.read_limit = 7; mf.write_pos = 9; mf.pending = 2; mf.cyclic_pos = 3; mf.action = LZMA_FINISH;
	static uint32_t OLDH[4], OLDS[4];
	if (IN.has_hash2) { mf.hash = OLDH; mf.son = OLDS; OLDH[1] = 77; }
	g_fail_hash = IN.fail_hash; g_fail_son = IN.fail_son;
	lzma_lz_options o; memset(&o, 0, sizeof(o));
	o.preset_dict = IN.preset_null ? NULL : IN.preset; o.preset_dict_size = IN.preset_size;
	const bool err = lz_encoder_init(&mf, NULL, &o);
	if (!IN.has_hash2 && (IN.fail_hash || IN.fail_son)) {
		ASSERT(err && mf.hash == NULL && mf.son == NULL, "hash/son allocation failed: both released, pointers cleared");
		REACH(lzinit_alloc_failed);
		return;
	}
	ASSERT(!err, "initialised");
	ASSERT(mf.read_ahead == 0 && mf.read_limit == 0 && mf.pending == 0 && mf.cyclic_pos == 0 && mf.offset == mf.cyclic_size && mf.action == LZMA_RUN, "positions reset; action LZMA_RUN");
	ASSERT(mf.hash[1] == 0, "hash table cleared");
	const bool use = !IN.preset_null && IN.preset_size > 0;
	const uint32_t wp = use ? (IN.preset_size < 16 ? IN.preset_size : 16) : 0;
	ASSERT(mf.write_pos == wp, "window holds min(preset size, window size) bytes");
	if (use) {
		ASSERT(GW.skips == 1 && GW.skip_amount == wp && GW.skip_read_pos == 0 && mf.read_pos == wp, "preset dictionary fed through the match finder once, from position 0");
		if (IN.k < wp) ASSERT(W16[IN.k] == IN.preset[IN.preset_size - wp + IN.k], "the window holds the TAIL of the preset dictionary (the bytes the decoder keeps too)");
		REACH_IF(IN.preset_size > 16, lzinit_preset_tail);
	} else {
		ASSERT(GW.skips == 0 && mf.read_pos == 0, "no preset dictionary");
		REACH(lzinit_plain);
	}
}


/* ---------------- lzma_lz_encoder_memusage ---------------- */
void h_lz_memusage(void)
{
	HAVOC(IN, struct in);
	ASSUME(IN.before <= (1u << 17) && IN.after <= (1u << 13) && IN.mlm <= 273 && IN.mlm >= 2);
	ASSUME(IN.nice >= (IN.mfid & 0x0F));
	lzma_lz_options o; memset(&o, 0, sizeof(o));
	o.before_size = IN.before; o.dict_size = IN.dict; o.after_size = IN.after; o.match_len_max = IN.mlm; o.nice_len = IN.nice;
	o.match_finder = (lzma_match_finder)IN.mfid; o.depth = IN.depth;
	memset(&GW, 0, sizeof(GW));
	const uint64_t est = lzma_lz_encoder_memusage(&o);
	/* what a real encoder with these options computes */
	lzma_mf mf; memset(&mf, 0, sizeof(mf));
	const bool bad = lz_encoder_prepare(&mf, NULL, &o);
	ASSERT((est == UINT64_MAX) == bad, "the estimate is UINT64_MAX exactly when the options are refused");
	if (bad) { REACH(mu_refused); return; }
	ASSERT(est == (uint64_t)mf.size + 4 * ((uint64_t)mf.hash_count + mf.sons_count) + sizeof(lzma_coder), "estimate = window + 4*(hash + son entries) + coder object, for the sizes a real encoder computes");
	ASSERT(est < (UINT64_C(1) << 36), "no wrap: the estimate stays far below 2^64");
	REACH(mu_ok);
	/* and those are the sizes lz_encoder_init asks the allocator for (small concrete instance, buffer not yet allocated) */
	lzma_mf m2; memset(&m2, 0, sizeof(m2)); memset(&GW, 0, sizeof(GW));
	m2.size = 16; m2.cyclic_size = 9; m2.hash_count = 3; m2.sons_count = 5; m2.skip = &stub_skip;
	g_buf_wanted = true; g_fail_hash = 0; g_fail_son = 0;
	lzma_lz_options o2; memset(&o2, 0, sizeof(o2));
	ASSERT(!lz_encoder_init(&m2, NULL, &o2), "small instance initialises");
	ASSERT(GW.allocs == 3 && GW.req[0] == 16 + LZMA_MEMCMPLEN_EXTRA && GW.req[1] == 3 * 4 && GW.zeroed[1] && GW.req[2] == 5 * 4, "lz_encoder_init allocates window + LZMA_MEMCMPLEN_EXTRA, 4*hash_count (zeroed) and 4*sons_count");
	ASSERT(LZMA_MEMCMPLEN_EXTRA <= 16, "the only slack between estimate and allocation is LZMA_MEMCMPLEN_EXTRA");
	REACH(mu_init_requests);
}
