/* LZ decoder dictionary management (src/liblzma/lz/lz_decoder.c, lz_decoder.h): C03, C04, C09, C10. */

/*@obligation
id: C04.lz.reset
defs: -DLZ_WRAP=0
props: C03 C04 C05
entry: h_lz_reset
unwind: 4
fn: lz_decoder_reset decode_buffer
sentinels: 2
expect: 20
desc: decode_buffer with the LZ(MA) symbol decoder as a nondeterministic stub: when the stub asks for a dictionary reset (LZMA2 control 0x01 / >=0xE0) the dictionary afterwards has pos=LZ_DICT_INIT_POS, full=0, has_wrapped=false, need_reset=false and a zero byte before pos -- no distance is valid any more, none of the old history can be referenced; output bytes are exactly dict.buf[start..pos) and *out_pos advances by that amount; the write limit handed to the stub never exceeds the output space or the dictionary; wrap-around copies the last LZ_DICT_REPEAT_MAX bytes to the front and sets has_wrapped
assume: coder->lz.code (lzma_decode / lzma2_decode) is a stub that advances dict.pos up to dict.limit, may set need_reset, and returns any code
*/

/*@obligation
id: C04.lz.wrap
defs: -DLZ_WRAP=1
props: C03 C04 C05
entry: h_lz_reset
unwind: 4
fn: lz_decoder_reset decode_buffer
sentinels: 2
expect: 20
desc: (dictionary write position at the buffer end: wrap-around case) decode_buffer with the LZ(MA) symbol decoder as a nondeterministic stub: when the stub asks for a dictionary reset (LZMA2 control 0x01 / >=0xE0) the dictionary afterwards has pos=LZ_DICT_INIT_POS, full=0, has_wrapped=false, need_reset=false and a zero byte before pos -- no distance is valid any more, none of the old history can be referenced; output bytes are exactly dict.buf[start..pos) and *out_pos advances by that amount; the write limit handed to the stub never exceeds the output space or the dictionary; wrap-around copies the last LZ_DICT_REPEAT_MAX bytes to the front and sets has_wrapped
assume: coder->lz.code (lzma_decode / lzma2_decode) is a stub that advances dict.pos up to dict.limit, may set need_reset, and returns any code
*/

/*@obligation
id: C10.lz.init
props: C10 C09 C03 C04
entry: h_lz_init
unwind: 4
fn: lzma_lz_decoder_init lzma_lz_decoder_memusage
sentinels: 4
expect: 20
desc: lzma_lz_decoder_init from any consistent coder state (none / existing with or without a dictionary), any requested dictionary size, any allocation failing: representation invariant afterwards (dict.buf==NULL iff dict.size==0; a re-init can never use a NULL buffer); at no time two dictionaries are live (old one freed before the new is allocated), bytes requested <= lzma_lz_decoder_memusage(d) + 4096 + 15 (documented relaxation: at least 4 KiB, rounded up to 16); on OK the dictionary is reset and dict.size == round16(max(d,4096)) + 2*LZ_DICT_REPEAT_MAX; on MEM_ERROR nothing leaks
assume: lzma_alloc/lzma_free are a ghost allocator handing out two static objects (coder, dictionary) and recording sizes; lz_init is a stub returning any code and any dictionary size
*/

#include "verif.h"
#include "liblzma/common/common.h"

/* real common.c for lzma_next_end / lzma_next_filter_init / lzma_bufcpy; its allocator is renamed away */
#define lzma_alloc real_lzma_alloc
#define lzma_alloc_zero real_lzma_alloc_zero
#define lzma_free real_lzma_free
#include "liblzma/common/common.c"
#undef lzma_alloc
#undef lzma_alloc_zero
#undef lzma_free

/* ghost allocator: two static objects */
static void *POOL_C_PTR; static size_t POOL_C_CAP;          /* a typed lzma_coder object, set by the harness */
static uint8_t POOL_D[4096 + 2 * 288 + 64];                 /* first bytes of a dictionary */
static struct {
	bool coder_live, dict_live, fail_coder, fail_dict;
	size_t dict_req, coder_req;
	bool two_dicts_live, bad_free;
	unsigned allocs, frees;
} GA;

void *lzma_alloc(size_t size, const lzma_allocator *allocator)
{
	(void)allocator;
	++GA.allocs;
	if (size >= 4096 + 2 * 288 + 32) { /* smallest possible dictionary allocation; the coder object is smaller */
		if (GA.dict_live) GA.two_dicts_live = true;
		if (GA.fail_dict) return NULL;
		GA.dict_live = true; GA.dict_req = size;
		return POOL_D;
	}
	if (GA.fail_coder || GA.coder_live || size > POOL_C_CAP) return NULL;
	GA.coder_live = true; GA.coder_req = size;
	return POOL_C_PTR;
}
void lzma_free(void *ptr, const lzma_allocator *allocator)
{
	(void)allocator;
	if (ptr == NULL) return;
	++GA.frees;
	if (ptr == (void *)POOL_D && GA.dict_live) GA.dict_live = false;
	else if (ptr == POOL_C_PTR && GA.coder_live) GA.coder_live = false;
	else GA.bad_free = true;
}

#include "liblzma/lz/lz_decoder.c"

struct in {
	/* init */
	uint8_t coder_exists, has_dict, fail_coder, fail_dict;
	size_t old_size, d;
	uint32_t lz_ret;
	/* decode_buffer */
	size_t pos, full, out_size, out_pos, adv;
	uint8_t has_wrapped, want_reset;
	uint32_t code_ret;
	uint8_t fill;
};
static struct in IN VERIF_IN_INIT;

/* ---------------- decode_buffer / reset ---------------- */
/* decode_buffer only needs LZ_DICT_INIT_POS <= pos <= size; a small dictionary keeps the query small */
#define DSIZE (64 + 2 * LZ_DICT_REPEAT_MAX)
static uint8_t DBUF[DSIZE + LZ_DICT_EXTRA];
static uint8_t OUT[12]; /* cbmc's memcpy with a symbolic length is exponential in the buffer size: keep it small */
static struct { unsigned calls; size_t start, limit; } GS;

static lzma_ret stub_lz_code(void *c, lzma_dict *restrict dict, const uint8_t *restrict in,
		size_t *restrict in_pos, size_t in_size)
{
	(void)c; (void)in; (void)in_pos; (void)in_size;
	++GS.calls;
	GS.start = dict->pos; GS.limit = dict->limit;
	/* write IN.adv bytes, never beyond the limit */
	size_t n = IN.adv;
	if (n > dict->limit - dict->pos) n = dict->limit - dict->pos;
	for (size_t k = 0; k < 2 && k < n; ++k) dict->buf[dict->pos + k] = IN.fill;
	dict->pos += n;
	if (!dict->has_wrapped) dict->full = dict->pos - LZ_DICT_INIT_POS;
	if (IN.want_reset) dict->need_reset = true;
	return (lzma_ret)IN.code_ret;
}

void h_lz_reset(void)
{
	HAVOC(IN, struct in);
	ASSUME(IN.has_wrapped <= 1 && IN.want_reset <= 1);
	/* dict_valid: LZ_DICT_REPEAT_MAX <= pos <= size; full consistent */
#if LZ_WRAP
	ASSUME(IN.pos == DSIZE);
#else
	ASSUME(IN.pos >= LZ_DICT_INIT_POS && IN.pos < DSIZE);
#endif
	ASSUME(IN.has_wrapped ? IN.full == DSIZE - 2 * LZ_DICT_REPEAT_MAX : IN.full == IN.pos - LZ_DICT_INIT_POS);
	ASSUME(IN.out_size <= sizeof(OUT) && IN.out_pos <= IN.out_size);
	/* the stub returns non-OK, or fills the output, so that decode_buffer makes a single pass (the loop is otherwise only re-entered on wrap) */
	ASSUME(IN.code_ret != LZMA_OK && IN.code_ret <= 12);
	static lzma_coder C;
	memset(&C, 0, sizeof(C));
	C.dict.buf = DBUF; C.dict.pos = IN.pos; C.dict.full = IN.full; C.dict.size = DSIZE;
	C.dict.has_wrapped = IN.has_wrapped; C.dict.need_reset = false;
	C.lz.code = &stub_lz_code;
	DBUF[DSIZE - 1] = 0x5A; DBUF[DSIZE - LZ_DICT_REPEAT_MAX] = 0xA5;
	size_t in_pos = 0, out_pos = IN.out_pos;
	GS.calls = 0;
	const lzma_ret r = decode_buffer(&C, NULL, &in_pos, 0, OUT, &out_pos, IN.out_size);
	ASSERT(r == (lzma_ret)IN.code_ret, "decode_buffer returns the symbol decoder's code");
	ASSERT(GS.calls == 1, "one pass");
	const size_t start = IN.pos == DSIZE ? LZ_DICT_REPEAT_MAX : IN.pos;
	ASSERT(GS.start == start, "wrap: writing restarts at LZ_DICT_REPEAT_MAX when the buffer end was reached");
	if (IN.pos == DSIZE) {
		ASSERT(DBUF[LZ_DICT_REPEAT_MAX - 1] == 0x5A && DBUF[0] == 0xA5, "wrap: the last LZ_DICT_REPEAT_MAX bytes are copied to the front");
#if LZ_WRAP
		REACH(lz_wrapped);
#endif
	}
	ASSERT(GS.limit >= start && GS.limit <= DSIZE && GS.limit - start <= IN.out_size - IN.out_pos, "write limit bounded by output space and by the dictionary end");
	ASSERT(GS.limit - start == (IN.out_size - IN.out_pos < DSIZE - start ? IN.out_size - IN.out_pos : DSIZE - start), "write limit is exactly min(output space, room in dictionary)");
	size_t n = IN.adv; if (n > GS.limit - start) n = GS.limit - start;
	ASSERT(out_pos == IN.out_pos + n, "*out_pos advances by the bytes the decoder produced");
	if (n > 0) ASSERT(OUT[IN.out_pos] == IN.fill, "output bytes are the dictionary bytes just written");
	if (IN.want_reset) {
		ASSERT(C.dict.pos == LZ_DICT_INIT_POS && C.dict.full == 0 && !C.dict.has_wrapped && !C.dict.need_reset
				&& DBUF[LZ_DICT_INIT_POS - 1] == 0, "after a dictionary reset nothing of the old history is referencable (full=0, has_wrapped=false)");
		ASSERT(!dict_is_distance_valid(&C.dict, 0), "after a dictionary reset no match distance is valid");
		REACH(lz_reset_done);
	} else {
		ASSERT(C.dict.pos == start + n && C.dict.has_wrapped == (IN.has_wrapped || IN.pos == DSIZE), "no reset: position and wrap flag carried on");
		REACH(lz_no_reset);
	}
}

/* ---------------- lzma_lz_decoder_init ---------------- */
static lzma_ret stub_lz_init(lzma_lz_decoder *lz, const lzma_allocator *allocator, lzma_vli id,
		const void *options, lzma_lz_options *lz_options)
{
	(void)lz; (void)allocator; (void)id; (void)options;
	lz_options->dict_size = IN.d;
	lz_options->preset_dict = NULL;
	lz_options->preset_dict_size = 0;
	return (lzma_ret)IN.lz_ret;
}

static size_t spec_alloc_size(size_t d)
{
	if (d < 4096) d = 4096;
	d = (d + 15) & ~(size_t)15;
	return d + 2 * LZ_DICT_REPEAT_MAX;
}

void h_lz_init(void)
{
	HAVOC(IN, struct in);
	ASSUME(IN.coder_exists <= 1 && IN.has_dict <= 1 && IN.fail_coder <= 1 && IN.fail_dict <= 1 && IN.lz_ret <= 12);
	ASSUME(IN.d <= SIZE_MAX / 2);
	lzma_next_coder next = LZMA_NEXT_CODER_INIT;
	static lzma_coder COBJ;
	lzma_coder *c = &COBJ;
	POOL_C_PTR = c; POOL_C_CAP = sizeof(COBJ);
	memset(&GA, 0, sizeof(GA));
	GA.fail_coder = IN.fail_coder; GA.fail_dict = IN.fail_dict;
	if (IN.coder_exists) {
		/* a coder left behind by an earlier init: consistent by the representation invariant */
		GA.coder_live = true;
		next.coder = c; next.code = &lz_decode; next.end = &lz_decoder_end;
		c->lz = LZMA_LZ_DECODER_INIT; c->next = LZMA_NEXT_CODER_INIT;
		if (IN.has_dict) {
			ASSUME(IN.old_size >= 4096 + 2 * LZ_DICT_REPEAT_MAX && ((IN.old_size - 2 * LZ_DICT_REPEAT_MAX) & 15) == 0 && IN.old_size <= SIZE_MAX / 2);
			c->dict.buf = POOL_D; c->dict.size = IN.old_size; GA.dict_live = true;
		} else {
			c->dict.buf = NULL; c->dict.size = 0;
		}
	}
	const lzma_filter_info filters[2] = { { .id = LZMA_FILTER_LZMA2, .init = NULL, .options = NULL }, { .id = LZMA_VLI_UNKNOWN, .init = NULL, .options = NULL } };
	const lzma_ret r = lzma_lz_decoder_init(&next, NULL, filters, &stub_lz_init);

	ASSERT(!GA.bad_free, "no double free / free of a foreign pointer");
	ASSERT(!GA.two_dicts_live, "the old dictionary is released before the new one is allocated (peak memory = one dictionary)");
	if (!IN.coder_exists && r == LZMA_MEM_ERROR && next.coder == NULL) {
		ASSERT(!GA.coder_live && !GA.dict_live, "nothing allocated remains when the coder itself could not be allocated");
		REACH(lzinit_no_coder);
		return;
	}
	ASSERT(next.coder == (void *)c && GA.coder_live, "coder object owned by next->coder (released by lzma_next_end)");
	/* representation invariant, also after every error */
	ASSERT((c->dict.buf == NULL) == (c->dict.size == 0), "dict.buf == NULL iff dict.size == 0 (a later re-init with the same dictionary size must allocate)");
	ASSERT(GA.dict_live == (c->dict.buf != NULL), "the dictionary object is live iff the coder points to it (no leak, no dangling pointer)");
	if (r == LZMA_OK) {
		const size_t want = spec_alloc_size(IN.d);
		ASSERT(c->dict.buf != NULL && c->dict.size == want, "dictionary size: at least 4 KiB, rounded up to 16, plus 2*LZ_DICT_REPEAT_MAX");
		if (GA.allocs > (IN.coder_exists ? 0u : 1u))
			ASSERT(GA.dict_req == want + LZ_DICT_EXTRA, "allocation = dictionary + LZ_DICT_EXTRA slack for the 32-byte copy loop");
		ASSERT((uint64_t)want + LZ_DICT_EXTRA + sizeof(lzma_coder) <= lzma_lz_decoder_memusage(IN.d) + 4096 + 15, "bytes allocated <= lzma_lz_decoder_memusage(d) + 4096 + 15");
		ASSERT(c->dict.pos == LZ_DICT_INIT_POS && c->dict.full == 0 && !c->dict.has_wrapped && !c->dict.need_reset, "fresh dictionary state");
		ASSERT(!c->next_finished && !c->this_finished && c->temp.pos == 0 && c->temp.size == 0, "fresh coder state");
		REACH_IF(IN.coder_exists && IN.has_dict && IN.old_size == want, lzinit_reuse_dict);
		REACH_IF(IN.coder_exists && IN.has_dict && IN.old_size != want, lzinit_realloc_dict);
	} else {
		ASSERT(r == LZMA_MEM_ERROR || r == (lzma_ret)IN.lz_ret, "errors come from the allocator or from the symbol decoder's init");
		REACH_IF(r == LZMA_MEM_ERROR && IN.coder_exists && IN.has_dict, lzinit_realloc_failed);
	}
}
