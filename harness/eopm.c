/* Known-size .lzma stream WITH end marker, input cut inside the marker (C06, C16): bounded, concrete file. */

/* NOT REGISTERED: symbolic execution of the real lzma_decode on the embedded file needs the 6144-iteration probability
 * initialisation unwound for every decoder (re)start and did not finish within 25 minutes even for a single split point.
 * The finding itself is documented in DESIGN.md section 6.3. The harness is kept for reference. */

#include "verif.h"
#include <lzma.h>

static const uint8_t FILE_BYTES[37] = {
	0x5d, 0x00, 0x10, 0x00, 0x00, 0x0d, 0x00, 0x00, 0x00, 0x00, 0x00, 0x00,
	0x00, 0x00, 0x24, 0x19, 0x49, 0x98, 0x6f, 0x05, 0x15, 0x27, 0x27, 0x0d,
	0x76, 0x78, 0xd0, 0x2a, 0x68, 0x17, 0x15, 0xff, 0xff, 0x75, 0xf8, 0x00,
	0x00
};
static const uint8_t WANT[13] = { 'H','e','l','l','o','\n','W','o','r','l','d','!','\n' };

#ifndef EOPM_LO
#	define EOPM_LO 14
#	define EOPM_HI 36
#endif

static lzma_ret decode_split(size_t k, uint8_t *out, size_t *produced)
{
	lzma_stream s = LZMA_STREAM_INIT;
	if (lzma_alone_decoder(&s, UINT64_MAX) != LZMA_OK) return LZMA_PROG_ERROR;
	s.next_out = out; s.avail_out = 64;
	s.next_in = FILE_BYTES; s.avail_in = k;
	lzma_ret r = lzma_code(&s, LZMA_RUN);
	if (r == LZMA_OK) {
		/* second piece: everything after what has been consumed so far */
		s.avail_in = 37 - (size_t)(s.next_in - FILE_BYTES);
		r = lzma_code(&s, LZMA_FINISH);
		if (r == LZMA_OK) r = lzma_code(&s, LZMA_FINISH);
	}
	*produced = 64 - s.avail_out;
	lzma_end(&s);
	return r;
}

void h_eopm(void)
{
	for (size_t k = EOPM_LO; k <= EOPM_HI; ++k) {
		uint8_t out[64]; size_t n = 0;
		const lzma_ret r = decode_split(k, out, &n);
		ASSERT(r == LZMA_STREAM_END && n == 13, "a valid known-size .lzma file with end marker decodes to STREAM_END for every input split");
		for (size_t j = 0; j < 13; ++j) ASSERT(out[j] == WANT[j], "and yields the 13 original bytes");
	}
	REACH(eopm_done);
}
