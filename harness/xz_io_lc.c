/* xz file_io.c: the read and write retry loops under in-source LOOP CONTRACTS (unbounded): C18, C17. */

/*@obligation
id: C18.io_write_buf.loop
props: C18 C17
entry: h_io_write_buf_lc
flags: xz
loopcontracts: yes
unwind: 3
nondet_volatile: user_abort
fn: io_write_buf io_wait
sentinels: 3
expect: 20
replay: none
timeout: 900
desc: UNBOUNDED: io_write_buf's retry loop (hook VERIF_IO_WRITE_BUF_LOOP_CONTRACT in src/xz/file_io.c) with write() accepting ANY positive amount or failing with any errno at every call: invariant = every write() so far was asked for exactly the not-yet-accepted tail of the caller's block (pointer = start + accepted, length = remaining), accepted + remaining == block size. On every exit: 'false' (success) only when the whole block was accepted, in order, nothing skipped and nothing written twice; EINTR retries the same tail (and gives up with an error once a signal was seen); EAGAIN waits for writability and retries; any other failure returns true; for blocks of any size up to IO_BUFFER_SIZE and any number of short writes
assume: write/poll/message_xxx are stubs (poll never returns EINTR itself, so the wait ends after one call); termination is not proved
*/
/*@obligation
id: C18.io_read.loop
props: C18 C17
entry: h_io_read_lc
flags: xz
loopcontracts: yes
unwind: 3
nondet_volatile: user_abort
fn: io_read io_wait
sentinels: 4
expect: 20
replay: none
timeout: 900
desc: UNBOUNDED: io_read's loop (hook VERIF_IO_READ_LOOP_CONTRACT) with read() returning any amount, 0 or any error at every call: invariant = every read() so far was given exactly the still-empty tail of the buffer (pointer = buffer + filled, length = wanted - filled) and filled == bytes delivered. On every exit the result is SIZE_MAX (error / signal) or the number of bytes delivered, stored contiguously from the start of the buffer; a result smaller than requested happens only at end of file (src_eof set, never cleared) or at a flush timeout (flush_needed set); src_eof is set only after read() returned 0
assume: read/poll/mytime_xxx/message_xxx are stubs; termination is not proved
*/

#include "verif.h"
#include <stdint.h>
#include <stddef.h>
#include <stdbool.h>

static struct {
	const uint8_t *base; size_t size0;       /* the caller's block (set by the harness, not assigned in the loops) */
} GC;
static struct {
	uint64_t accepted; bool noncontig, eof_seen, failed; unsigned calls;
} G;
struct in { size_t size; uint8_t seen_input, src_eof; };
static struct in IN VERIF_IN_INIT;

#define VERIF_IO_WRITE_BUF_LOOP_CONTRACT \
	__CPROVER_assigns(buf, size, G, verif_errno) \
	__CPROVER_loop_invariant(size <= GC.size0 && G.accepted == GC.size0 - size && !G.noncontig) \
	__CPROVER_loop_invariant(__CPROVER_same_object(buf, GC.base) && __CPROVER_POINTER_OFFSET(buf) == __CPROVER_POINTER_OFFSET(GC.base) + (GC.size0 - size))
#define VERIF_IO_READ_LOOP_CONTRACT \
	__CPROVER_assigns(pos, G, verif_errno, pair->src_eof, pair->src_has_seen_input, pair->flush_needed) \
	__CPROVER_loop_invariant(pos <= size && G.accepted == pos && !G.noncontig && !G.eof_seen && pair->src_eof == (IN.src_eof != 0))

/* errno is a function call in glibc (not allowed as an assigns target): the translation unit sees a plain ghost variable instead */
#include <errno.h>
#undef errno
static int verif_errno;
#define errno verif_errno
#include "file_io.c"
#include <stdarg.h>

uint32_t nondet_verif_u32(void);
size_t nondet_verif_size(void);
uint8_t nondet_verif_u8(void);

static io_buf BUF;
static file_pair P;
static char NAME[] = "f";
#define FD_SRC 5
#define FD_DEST 6

static int pick_errno(void)
{
	const uint8_t k = nondet_verif_u8();
	return k == 0 ? EINTR : k == 1 ? EAGAIN : k == 2 ? EPIPE : k == 3 ? EIO : ENOSPC;
}
ssize_t write(int fd, const void *p, size_t n)
{
	++G.calls;
	if (fd != FD_DEST || (const uint8_t *)p != GC.base + G.accepted || n != GC.size0 - G.accepted) G.noncontig = true;
	if (nondet_verif_u8() & 1) { errno = pick_errno(); G.failed = true; return -1; }
	const size_t a = nondet_verif_size();
	__CPROVER_assume(a >= 1 && a <= n);
	G.accepted += a;
	return (ssize_t)a;
}
ssize_t read(int fd, void *p, size_t n)
{
	++G.calls;
	if (fd != FD_SRC || (uint8_t *)p != BUF.u8 + G.accepted || n != GC.size0 - G.accepted) G.noncontig = true;
	const uint8_t c = nondet_verif_u8();
	if (c == 1) { errno = pick_errno(); G.failed = true; return -1; }
	if (c == 2) { G.eof_seen = true; return 0; }
	const size_t a = nondet_verif_size();
	__CPROVER_assume(a >= 1 && a <= n);
	G.accepted += a;
	return (ssize_t)a;
}
int poll(struct pollfd *fds, nfds_t n, int timeout)
{
	(void)n; (void)timeout;
	const uint8_t c = nondet_verif_u8();
	if (c == 0) { errno = EIO; return -1; }
	if (c == 1) return 0;
	fds[0].revents = POLLIN; fds[1].revents = 0;
	return 1;
}
/* the rest of file_io.c's environment (not reached by these two functions, or trivial) */
int open(const char *path, int flags, ...) { (void)path; (void)flags; return -1; }
int close(int fd) { (void)fd; return 0; }
int unlink(const char *name) { (void)name; return 0; }
off_t lseek(int fd, off_t off, int whence) { (void)fd; (void)off; (void)whence; return 0; }
int fsync(int fd) { (void)fd; return 0; }
void message_warning(const char *fmt, ...) { (void)fmt; }
void message_error(const char *fmt, ...) { (void)fmt; }
void message_fatal(const char *fmt, ...) { (void)fmt; __CPROVER_assume(0); }
void message_bug(void) { __CPROVER_assert(0, "message_bug() reached"); __CPROVER_assume(0); }
const char *tuklib_mask_nonprint(const char *s) { return s; }
void signals_block(void) {} void signals_unblock(void) {}
volatile sig_atomic_t user_abort;
const char stdin_filename_dummy[] = "(stdin)";
bool opt_keep_original, opt_force, opt_synchronous, opt_stdout, opt_robot, opt_ignore_check;
enum operation_mode opt_mode; enum format_type opt_format;
int mytime_get_flush_timeout(void) { return 0; } void mytime_set_flush_time(void) {}
void set_exit_status(enum exit_status_type s) { (void)s; }
char *strerror(int e) { (void)e; static char m[] = "e"; return m; }

static void setup(void)
{
	memset(&G, 0, sizeof(G)); memset(&P, 0, sizeof(P));
	P.src_name = NAME; P.dest_name = NAME; P.src_fd = FD_SRC; P.dest_fd = FD_DEST; P.dir_fd = -1;
	P.src_has_seen_input = IN.seen_input; P.src_eof = IN.src_eof; P.flush_needed = false;
	user_abort_pipe[0] = 8; user_abort_pipe[1] = 9;
	GC.base = BUF.u8; GC.size0 = IN.size;
}

void h_io_write_buf_lc(void)
{
	HAVOC(IN, struct in);
	ASSUME(IN.size <= IO_BUFFER_SIZE && IN.seen_input <= 1 && IN.src_eof <= 1);
	setup();
	const bool err = io_write_buf(&P, BUF.u8, IN.size);
	ASSERT(!G.noncontig, "every write() was asked for exactly the not yet accepted tail of the block");
	if (!err) {
		ASSERT(G.accepted == IN.size, "success only when the whole block was accepted by write(), in order");
		REACH(wl_complete);
		REACH_IF(G.calls >= 2, wl_complete_after_retry);
	} else {
		ASSERT(G.failed, "an error is reported only after write() failed");
		REACH(wl_error);
	}
	ASSERT(G.accepted <= IN.size, "never more than the block");
}

void h_io_read_lc(void)
{
	HAVOC(IN, struct in);
	ASSUME(IN.size <= IO_BUFFER_SIZE && IN.seen_input <= 1 && IN.src_eof == 0);
	setup();
	const size_t r = io_read(&P, &BUF, IN.size);
	ASSERT(!G.noncontig, "every read() was given exactly the still empty tail of the buffer");
	if (r == SIZE_MAX) { ASSERT(G.failed, "SIZE_MAX only after read() (or the wait) failed or a signal arrived"); REACH(rl_error); return; }
	ASSERT(r == G.accepted && r <= IN.size, "the result is the number of bytes delivered, stored contiguously from the start of the buffer");
	if (r < IN.size) { ASSERT(P.src_eof || P.flush_needed, "fewer bytes than requested only at end of file or at a flush timeout"); REACH(rl_short); }
	ASSERT(P.src_eof == G.eof_seen, "src_eof is set exactly when read() returned 0");
	REACH_IF(r == IN.size && IN.size > 0, rl_full);
	REACH_IF(P.src_eof, rl_eof);
}
