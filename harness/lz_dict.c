/* LZ decoder dictionary primitives (src/liblzma/lz/lz_decoder.h): dict_repeat (byte loop and 32-byte SSE2 loop), dict_put, dict_get, dict_write: C04, C03. */

/* (An obligation on dict_repeat was written -- h_dict_repeat below -- but the SAT back end runs out of memory on the
 * 128-bit SSE2 loads/stores at symbolic offsets even for lengths <= 8; it is therefore NOT registered. DESIGN.md section 8.) */
/*@obligation
id: C04.dict.put_write
props: C04 C03
entry: h_dict_put
unwind: 12
fn: dict_put dict_put_safe dict_write dict_get0
sentinels: 3
expect: 20
desc: dict_put / dict_put_safe / dict_write under the same invariant: dict_put_safe refuses (returns true, nothing written) exactly when pos == limit; otherwise one byte is stored at pos, pos+1, 'full' updated unless wrapped, dict_get0 returns it; dict_write copies min(input available, *left, limit - pos) bytes, advances *in_pos and pos, decrements *left by that amount
*/

#include "verif.h"
#include "liblzma/common/common.h"
size_t lzma_bufcpy(const uint8_t *restrict in, size_t *restrict in_pos, size_t in_size,
		uint8_t *restrict out, size_t *restrict out_pos, size_t out_size)
{
	const size_t in_avail = in_size - *in_pos, out_avail = out_size - *out_pos;
	const size_t n = in_avail < out_avail ? in_avail : out_avail;
	for (size_t k = 0; k < n; ++k) out[*out_pos + k] = in[*in_pos + k];
	*in_pos += n; *out_pos += n;
	return n;
}
#include "liblzma/lz/lz_decoder.h"

#define DSIZE (64 + 2 * LZ_DICT_REPEAT_MAX)
struct dbuf { uint8_t b[DSIZE + LZ_DICT_EXTRA]; };
static struct dbuf DB;
#define DBUF DB.b

struct in {
	size_t pos, limit, full; uint8_t wrapped;
	uint32_t distance, len; size_t k;
	uint8_t byte; uint8_t inb[8]; size_t in_size, left;
};
static struct in IN VERIF_IN_INIT;

static bool dict_wf(void)
{
	return IN.wrapped <= 1 && IN.pos >= LZ_DICT_INIT_POS && IN.pos <= IN.limit && IN.limit <= DSIZE
		&& (IN.wrapped ? IN.full == DSIZE - 2 * LZ_DICT_REPEAT_MAX : IN.full == IN.pos - LZ_DICT_INIT_POS);
}
static void mk(lzma_dict *d)
{
	d->buf = DBUF; d->pos = IN.pos; d->limit = IN.limit; d->size = DSIZE; d->full = IN.full; d->has_wrapped = IN.wrapped; d->need_reset = false;
}

void h_dict_repeat(void)
{
	HAVOC(IN, struct in);
	HAVOC(DB, struct dbuf);
	ASSUME(dict_wf() && IN.distance < IN.full && IN.len >= 1 && IN.len <= 8);
	lzma_dict d; mk(&d);
	ASSERT(dict_is_distance_valid(&d, IN.distance), "precondition: the LZMA decoder only repeats valid distances");
	/* snapshot of one source byte: the byte 'distance+1' before index pos+k, before the copy (may itself be produced by the copy when overlapping) */
	uint8_t snap[DSIZE + LZ_DICT_EXTRA]; memcpy(snap, DBUF, sizeof(snap));
	uint32_t len = IN.len;
	const bool more = dict_repeat(&d, IN.distance, &len);
	const size_t n = IN.len < IN.limit - IN.pos ? IN.len : IN.limit - IN.pos;
	ASSERT(d.pos == IN.pos + n && d.pos <= d.limit, "pos advances by min(len, room) and never passes the limit");
	ASSERT(len == IN.len - n && more == (len != 0), "remaining length and return value");
	ASSERT(d.full == (IN.wrapped ? IN.full : d.pos - LZ_DICT_INIT_POS), "'full' grows with pos until the buffer has wrapped");
	ASSUME(IN.k < n);
	{
		/* LZ77 semantics: new[pos+k] = (k > distance) ? new[pos+k-distance-1] : old[pos+k-distance-1 (+ wrap)] */
		const size_t idx = IN.pos + IN.k;
		uint8_t want;
		if (IN.k > IN.distance) want = DBUF[idx - IN.distance - 1];
		else {
			size_t src = idx - IN.distance - 1;           /* may wrap below zero */
			if (IN.distance >= idx) src = idx + (DSIZE - LZ_DICT_REPEAT_MAX) - IN.distance - 1;
			want = snap[src];
		}
		ASSERT(DBUF[idx] == want, "each copied byte equals the byte distance+1 positions earlier (overlap and wrap-around included)");
	}
	REACH_IF(IN.distance < n && n > 1, rep_overlapping);
	REACH_IF(IN.distance >= n && n >= 2, rep_sse_round);
	REACH_IF(IN.distance >= IN.pos, rep_wrapped_source);
	REACH_IF(len != 0, rep_truncated_by_limit);
}

void h_dict_put(void)
{
	HAVOC(IN, struct in);
	ASSUME(dict_wf() && IN.in_size <= 8 && IN.left <= 16);
	lzma_dict d; mk(&d);
	const bool full = dict_put_safe(&d, IN.byte);
	if (IN.pos == IN.limit) { ASSERT(full && d.pos == IN.pos, "no room: refused, nothing written"); REACH(put_refused); }
	else {
		ASSERT(!full && d.pos == IN.pos + 1 && DBUF[IN.pos] == IN.byte && dict_get0(&d) == IN.byte, "byte stored at pos");
		ASSERT(d.full == (IN.wrapped ? IN.full : d.pos - LZ_DICT_INIT_POS), "'full' updated");
		REACH(put_ok);
	}
	mk(&d);
	size_t in_pos = 0, left = IN.left;
	dict_write(&d, IN.inb, &in_pos, IN.in_size, &left);
	size_t n = IN.in_size; if (n > IN.left) n = IN.left; if (n > IN.limit - IN.pos) n = IN.limit - IN.pos;
	ASSERT(in_pos == n && d.pos == IN.pos + n && left == IN.left - n, "dict_write copies min(input, *left, room)");
	if (n > 0) ASSERT(DBUF[IN.pos] == IN.inb[0] && DBUF[IN.pos + n - 1] == IN.inb[n - 1], "bytes copied in order");
	REACH_IF(n > 0 && n < IN.in_size, write_limited);
}
