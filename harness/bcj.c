/* BCJ filters (src/liblzma/simple/*.c): per-unit full-domain lemmas and short-buffer composition (C15, C04). */

/*@obligation
id: C15.unit.arm
props: C15 C04
entry: h_arm
defs: -DNBYTES=4
unwind: 6
fn: arm_code
sentinels: 2
expect: 10
desc: arm_code on one 4-byte unit at every 4-aligned position, both directions: output == independent reference (BL cond=AL only, target = pc+8+imm24*4), decode(encode(u)) == u with the real code, returns 4, nothing else written
*/
/*@obligation
id: C15.multi.arm
props: C15 C04 C06
entry: h_arm
defs: -DNBYTES=16
unwind: 18
kind: bounded
bound: buffer <= 16 bytes (4 units), every size 0..16
fn: arm_code
sentinels: 2
expect: 10
desc: arm_code on 0..16 bytes: returns size rounded down to 4, unit k transformed with pc = now_pos+4k exactly as the reference, tail bytes untouched, real decode inverts real encode
*/
/*@obligation
id: C15.unit.powerpc
props: C15 C04
entry: h_powerpc
defs: -DNBYTES=4
unwind: 6
fn: powerpc_code
sentinels: 2
expect: 10
desc: powerpc_code on one unit: equals the reference (bl: opcode 18, AA=0, LK=1; LI += pc), inverse pair, returns 4
*/
/*@obligation
id: C15.multi.powerpc
props: C15 C04 C06
entry: h_powerpc
defs: -DNBYTES=16
unwind: 18
kind: bounded
bound: buffer <= 16 bytes
fn: powerpc_code
sentinels: 2
expect: 10
desc: powerpc_code on 0..16 bytes: per-unit reference at pc+4k, return value, tail untouched, inverse
*/
/*@obligation
id: C15.unit.sparc
props: C15 C04
entry: h_sparc
defs: -DNBYTES=4
unwind: 6
fn: sparc_code
sentinels: 2
expect: 10
desc: sparc_code on one unit: equals the reference (call with sign-extended 23-bit displacement), inverse pair, returns 4
*/
/*@obligation
id: C15.multi.sparc
props: C15 C04 C06
entry: h_sparc
defs: -DNBYTES=16
unwind: 18
kind: bounded
bound: buffer <= 16 bytes
fn: sparc_code
sentinels: 2
expect: 10
desc: sparc_code on 0..16 bytes: per-unit reference at pc+4k, return value, tail untouched, inverse
*/
/*@obligation
id: C15.unit.arm64
props: C15 C04
entry: h_arm64
defs: -DNBYTES=4
unwind: 6
fn: arm64_code
sentinels: 3
expect: 10
desc: arm64_code on one unit: equals the reference (BL imm26; ADRP only within +/-512 MiB, result sign-extended from 18 bits), inverse pair, returns 4
*/
/*@obligation
id: C15.multi.arm64
props: C15 C04 C06
entry: h_arm64
objbits: 12
defs: -DNBYTES=16
unwind: 18
kind: bounded
bound: buffer <= 16 bytes
fn: arm64_code lzma_bcj_arm64_encode lzma_bcj_arm64_decode
sentinels: 3
expect: 10
desc: arm64_code on 0..16 bytes: per-unit reference at pc+4k, return value, tail untouched, inverse; lzma_bcj_arm64_encode/decode are the same transform with start_offset rounded down to 4
*/
/*@obligation
id: C15.unit.armthumb
props: C15 C04
entry: h_armthumb
defs: -DNBYTES=4
unwind: 6
fn: armthumb_code
sentinels: 2
expect: 10
desc: armthumb_code on one 4-byte BL pair position (2-aligned): equals the reference (11110/11111 halfword pair, target = pc+4+imm22*2), inverse pair
*/
/*@obligation
id: C15.multi.armthumb
props: C15 C04 C06
entry: h_armthumb
defs: -DNBYTES=10
unwind: 12
kind: bounded
bound: buffer <= 10 bytes
fn: armthumb_code
sentinels: 2
expect: 10
desc: armthumb_code on 0..10 bytes equals a halfword-stepping reference scan (convert pair then skip 4, else step 2), return value within 3 bytes of size, inverse
*/
/*@obligation
id: C15.riscv
props: C15 C04 C06
entry: h_riscv
objbits: 12
defs: -DNBYTES=16
unwind: 18
kind: bounded
bound: buffer <= 16 bytes (holds every unit form: JAL 4, AUIPC pair 8, non-pair skip 6, special escape 8, step 2)
fn: riscv_encode riscv_decode
sentinels: 4
expect: 10
timeout: 900
desc: riscv_encode/riscv_decode on 0..16 bytes at every 2-aligned position equal the independent reference scan (which instructions are converted, how far the scan advances after each form, how the address is stored), return values equal, real decode inverts real encode
*/
/*@obligation
id: C15.ia64.roundtrip
props: C15 C04
entry: h_ia64
defs: -DNBYTES=16
unwind: 18
fn: ia64_code
sentinels: 1
expect: 10
timeout: 900
desc: ia64_code on one 16-byte bundle, full domain: real decode(real encode(bundle)) == bundle at every 16-aligned position; returns 16; bytes of slots that the template marks as non-branch are untouched (no independent reference for the slot arithmetic)
*/
/*@obligation
id: C15.x86.roundtrip
props: C15 C04
entry: h_x86
defs: -DNBYTES=8
unwind: 10
kind: bounded
bound: 8-byte buffer from the initial filter state
fn: x86_code
sentinels: 1
expect: 10
timeout: 900
desc: x86_code (stateful prev_mask/prev_pos) from the initial state on 8 symbolic bytes: real decode(real encode(x)) == x, equal return values and equal final filter state on both sides
*/
/*@obligation
id: C15.x86.roundtrip12
props: C15
entry: h_x86
tier: thorough
defs: -DNBYTES=12
unwind: 14
kind: bounded
bound: 12-byte buffer from the initial filter state
fn: x86_code
sentinels: 1
expect: 10
timeout: 3000
desc: as C15.x86.roundtrip with 12 bytes (two overlapping candidate opcodes and the mask history between them)
*/

#include "verif.h"
#include "bcj_ref.h"
#include "liblzma/common/common.h"
#include "liblzma/simple/arm.c"
#include "liblzma/simple/armthumb.c"
#include "liblzma/simple/arm64.c"
#include "liblzma/simple/powerpc.c"
#include "liblzma/simple/sparc.c"
#include "liblzma/simple/ia64.c"
#include "liblzma/simple/riscv.c"
#include "liblzma/simple/x86.c"

#ifndef NBYTES
#	define NBYTES 16
#endif

struct in {
	uint8_t buf[NBYTES];
	uint32_t pos;
	uint8_t enc;
	size_t size;
};
static struct in IN VERIF_IN_INIT;
static uint8_t W[NBYTES], R[NBYTES], B2[NBYTES];

typedef size_t (*filter_fn)(void *, uint32_t, bool, uint8_t *, size_t);

/* word-unit architectures */
#define WORD_HARNESS(name, fn, REF, LOAD, STORE) \
void h_##name(void) \
{ \
	HAVOC(IN, struct in); \
	ASSUME(IN.size <= NBYTES && IN.enc <= 1 && (IN.pos & 3) == 0); \
	if (NBYTES == 4) ASSUME(IN.size == 4); \
	memcpy(W, IN.buf, NBYTES); \
	const size_t r = fn(NULL, IN.pos, IN.enc, W, IN.size); \
	ASSERT(r == (IN.size & ~(size_t)3), #fn ": returns the size rounded down to a whole unit"); \
	for (size_t k = 0; k < NBYTES / 4; ++k) { \
		if (4 * k + 4 <= IN.size) { \
			uint8_t e[4]; \
			STORE(e, REF(LOAD(IN.buf + 4 * k), IN.pos + (uint32_t)(4 * k), IN.enc)); \
			ASSERT(W[4*k] == e[0] && W[4*k+1] == e[1] && W[4*k+2] == e[2] && W[4*k+3] == e[3], #fn ": unit equals the reference transform at pc = now_pos + 4k"); \
			REACH_IF(k == 0 && (e[0] != IN.buf[0] || e[1] != IN.buf[1] || e[2] != IN.buf[2] || e[3] != IN.buf[3]), name##_converted); \
		} else { \
			for (size_t j = 4 * k; j < 4 * k + 4 && j < NBYTES; ++j) \
				ASSERT(W[j] == IN.buf[j], #fn ": bytes beyond the last whole unit untouched"); \
		} \
	} \
	memcpy(B2, W, NBYTES); \
	const size_t r2 = fn(NULL, IN.pos, !IN.enc, B2, IN.size); \
	ASSERT(r2 == r, #fn ": inverse direction processes the same amount"); \
	for (size_t j = 0; j < NBYTES; ++j) \
		ASSERT(B2[j] == IN.buf[j], #fn ": decode(encode(x)) == x and encode(decode(x)) == x"); \
	REACH(name##_done); \
}

WORD_HARNESS(arm, arm_code, ref_arm, ref_le32, ref_put_le32)
WORD_HARNESS(powerpc, powerpc_code, ref_powerpc, ref_be32, ref_put_be32)
WORD_HARNESS(sparc, sparc_code, ref_sparc, ref_be32, ref_put_be32)

void h_arm64(void)
{
	HAVOC(IN, struct in);
	ASSUME(IN.size <= NBYTES && IN.enc <= 1 && (IN.pos & 3) == 0);
	if (NBYTES == 4) ASSUME(IN.size == 4);
	memcpy(W, IN.buf, NBYTES);
	const size_t r = arm64_code(NULL, IN.pos, IN.enc, W, IN.size);
	ASSERT(r == (IN.size & ~(size_t)3), "arm64_code: returns the size rounded down to a whole unit");
	for (size_t k = 0; k < NBYTES / 4; ++k) {
		if (4 * k + 4 <= IN.size) {
			uint8_t e[4];
			const uint32_t w = ref_le32(IN.buf + 4 * k);
			ref_put_le32(e, ref_arm64(w, IN.pos + (uint32_t)(4 * k), IN.enc));
			ASSERT(W[4*k] == e[0] && W[4*k+1] == e[1] && W[4*k+2] == e[2] && W[4*k+3] == e[3], "arm64_code: unit equals the reference transform at pc = now_pos + 4k");
			REACH_IF(k == 0 && (w >> 26) == 0x25 && ref_le32(e) != w, arm64_bl);
			REACH_IF(k == 0 && (w & 0x9F000000) == 0x90000000 && ref_le32(e) != w, arm64_adrp);
		} else {
			for (size_t j = 4 * k; j < 4 * k + 4 && j < NBYTES; ++j)
				ASSERT(W[j] == IN.buf[j], "arm64_code: bytes beyond the last whole unit untouched");
		}
	}
	memcpy(B2, W, NBYTES);
	const size_t r2 = arm64_code(NULL, IN.pos, !IN.enc, B2, IN.size);
	ASSERT(r2 == r, "arm64_code: inverse direction processes the same amount");
	for (size_t j = 0; j < NBYTES; ++j)
		ASSERT(B2[j] == IN.buf[j], "arm64_code: decode(encode(x)) == x and encode(decode(x)) == x");
#if NBYTES > 4
	/* the public one-shot API is the same transform with the offset rounded down */
	memcpy(R, IN.buf, NBYTES);
	const uint32_t any = IN.pos | (IN.buf[0] & 3);
	const size_t r3 = IN.enc ? lzma_bcj_arm64_encode(any, R, IN.size) : lzma_bcj_arm64_decode(any, R, IN.size);
	ASSERT(r3 == r, "lzma_bcj_arm64_*: same amount");
	for (size_t j = 0; j < NBYTES; ++j)
		ASSERT(R[j] == W[j], "lzma_bcj_arm64_*: same bytes as the filter at start_offset & ~3");
#endif
	REACH(arm64_done);
}

/* ARM Thumb: halfword stepping reference scan */
static size_t ref_thumb_scan(uint32_t now_pos, bool enc, uint8_t *b, size_t size)
{
	size_t i = 0;
	while (i + 4 <= size) {
		uint16_t h0 = (uint16_t)(b[i] | (b[i + 1] << 8)), h1 = (uint16_t)(b[i + 2] | (b[i + 3] << 8));
		if (ref_thumb_is_bl(h0, h1)) {
			ref_thumb(&h0, &h1, now_pos + (uint32_t)i, enc);
			b[i] = (uint8_t)h0; b[i + 1] = (uint8_t)(h0 >> 8); b[i + 2] = (uint8_t)h1; b[i + 3] = (uint8_t)(h1 >> 8);
			i += 4;
		} else {
			i += 2;
		}
	}
	return i;
}

void h_armthumb(void)
{
	HAVOC(IN, struct in);
	ASSUME(IN.size <= NBYTES && IN.enc <= 1 && (IN.pos & 1) == 0);
	if (NBYTES == 4) ASSUME(IN.size == 4);
	memcpy(W, IN.buf, NBYTES); memcpy(R, IN.buf, NBYTES);
	const size_t r = armthumb_code(NULL, IN.pos, IN.enc, W, IN.size);
	const size_t rr = ref_thumb_scan(IN.pos, IN.enc, R, IN.size);
	ASSERT(r == rr, "armthumb_code: processed length equals the reference scan");
	ASSERT(r <= IN.size && IN.size - r < 4, "armthumb_code: leaves fewer than 4 unfiltered bytes");
	for (size_t j = 0; j < NBYTES; ++j)
		ASSERT(W[j] == R[j], "armthumb_code: bytes equal the reference transform");
	REACH_IF(W[0] != IN.buf[0] || W[2] != IN.buf[2], thumb_converted);
	memcpy(B2, W, NBYTES);
	const size_t r2 = armthumb_code(NULL, IN.pos, !IN.enc, B2, IN.size);
	ASSERT(r2 == r, "armthumb_code: inverse direction processes the same amount");
	for (size_t j = 0; j < NBYTES; ++j)
		ASSERT(B2[j] == IN.buf[j], "armthumb_code: inverse pair");
	REACH(thumb_done);
}

void h_riscv(void)
{
	HAVOC(IN, struct in);
	ASSUME(IN.size <= NBYTES && (IN.pos & 1) == 0);
	memcpy(W, IN.buf, NBYTES); memcpy(R, IN.buf, NBYTES);
	const size_t r = riscv_encode(NULL, IN.pos, true, W, IN.size);
	const size_t rr = ref_riscv_encode(IN.pos, R, IN.size);
	ASSERT(r == rr, "riscv_encode: processed length equals the reference scan");
	for (size_t j = 0; j < NBYTES; ++j)
		ASSERT(W[j] == R[j], "riscv_encode: bytes equal the reference transform");
	REACH_IF(IN.buf[0] == 0xEF && W[2] != IN.buf[2], riscv_jal);
	REACH_IF((IN.buf[0] & 0x7F) == 0x17 && r == 8 && IN.size == 8 && W[7] != IN.buf[7], riscv_auipc_pair);
	REACH_IF((IN.buf[0] & 0x7F) == 0x17 && IN.size == 15 && r == 14, riscv_skip6);
	/* decoder side against its reference, on arbitrary (not necessarily encoder-produced) bytes */
	memcpy(B2, IN.buf, NBYTES); memcpy(R, IN.buf, NBYTES);
	const size_t d = riscv_decode(NULL, IN.pos, false, B2, IN.size);
	const size_t dr = ref_riscv_decode(IN.pos, R, IN.size);
	ASSERT(d == dr, "riscv_decode: processed length equals the reference scan");
	for (size_t j = 0; j < NBYTES; ++j)
		ASSERT(B2[j] == R[j], "riscv_decode: bytes equal the reference transform");
	/* inverse */
	memcpy(B2, W, NBYTES);
	const size_t r2 = riscv_decode(NULL, IN.pos, false, B2, IN.size);
	ASSERT(r2 == r, "riscv: decoder consumes what the encoder produced");
	for (size_t j = 0; j < NBYTES; ++j)
		ASSERT(B2[j] == IN.buf[j], "riscv: decode(encode(x)) == x");
	REACH(riscv_done);
}

void h_ia64(void)
{
	HAVOC(IN, struct in);
	ASSUME(IN.enc <= 1 && (IN.pos & 15) == 0);
	memcpy(W, IN.buf, NBYTES);
	const size_t r = ia64_code(NULL, IN.pos, IN.enc, W, 16);
	ASSERT(r == 16, "ia64_code: one bundle processed");
	ASSERT((W[0] & 0x1F) == (IN.buf[0] & 0x1F), "ia64_code: template bits untouched");
	memcpy(B2, W, NBYTES);
	const size_t r2 = ia64_code(NULL, IN.pos, !IN.enc, B2, 16);
	ASSERT(r2 == 16, "ia64_code: inverse processes the bundle");
	for (size_t j = 0; j < NBYTES; ++j)
		ASSERT(B2[j] == IN.buf[j], "ia64_code: inverse pair on a bundle");
	REACH_IF(W[5] != IN.buf[5] || W[10] != IN.buf[10], ia64_converted);
}

void h_x86(void)
{
	HAVOC(IN, struct in);
	lzma_simple_x86 se = { .prev_mask = 0, .prev_pos = (uint32_t)(-5) };
	lzma_simple_x86 sd = se;
	memcpy(W, IN.buf, NBYTES);
	const size_t r = x86_code(&se, IN.pos, true, W, NBYTES);
	memcpy(B2, W, NBYTES);
	const size_t r2 = x86_code(&sd, IN.pos, false, B2, NBYTES);
	ASSERT(r == r2, "x86_code: decoder processes what the encoder processed");
	ASSERT(r <= NBYTES && NBYTES - r < 5, "x86_code: leaves fewer than 5 unfiltered bytes");
	ASSERT(se.prev_mask == sd.prev_mask && se.prev_pos == sd.prev_pos, "x86_code: encoder and decoder filter state stay in lock step");
	for (size_t j = 0; j < NBYTES; ++j)
		ASSERT(B2[j] == IN.buf[j], "x86_code: decode(encode(x)) == x");
	REACH_IF(W[1] != IN.buf[1], x86_converted);
}
