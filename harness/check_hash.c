/* Integrity checks: CRC32, CRC64 (table-driven generic code), SHA-256 buffering/padding, lzma_check_* dispatch (C14, C04). */

/*@obligation
id: C14.crc32.tables
props: C14
entry: h_crc32_tables
unwind: 300
fn: lzma_crc32_table
sentinels: 1
expect: 5
timeout: 900
desc: every entry of lzma_crc32_table[0..7][0..255] (2048 constants): table[0][b] is eight bit-at-a-time steps of b with the reflected polynomial 0xEDB88320, table[k][b] is table[k-1][b] advanced by one zero byte (concrete, constant-folded, complete)
*/
/*@obligation
id: C14.crc64.tables
props: C14
entry: h_crc64_tables
unwind: 300
fn: lzma_crc64_table
sentinels: 1
expect: 5
timeout: 900
desc: every entry of lzma_crc64_table[0..3][0..255]: table[0][b] is eight bit-at-a-time steps with 0xC96C5795D7870F42, table[k][b] = table[k-1][b] advanced by one zero byte
*/
/*@obligation
id: C14.crc32.short
props: C14 C04
entry: h_crc32_short
enforce: lzma_crc32
unwind: 10
fn: lzma_crc32 lzma_crc32_generic
sentinels: 1
expect: 10
timeout: 900
desc: lzma_crc32(buf, n, crc) == bit-at-a-time CRC-32 for EVERY buffer of n <= 8 bytes, every byte value, every starting crc (the functional contract that callers of short CRCs -- Stream Header/Footer -- are verified against); the table-driven byte loop reads exactly buf[0..n)
*/
/*@obligation
id: C14.crc64.short
props: C14 C04
entry: h_crc64_short
enforce: lzma_crc64
unwind: 10
fn: lzma_crc64 lzma_crc64_generic
sentinels: 1
expect: 10
timeout: 900
desc: lzma_crc64(buf, n, crc) == bit-at-a-time CRC-64/XZ for every buffer of n <= 4 bytes (the table-driven byte loop), every starting crc; the slice-by-4 loop is covered by C14.crc64.basis
*/
/*@obligation
id: C14.crc32.basis
props: C14
entry: h_crc32_basis
unwind: 20
kind: bounded
bound: 17-byte aligned buffers (one slice-by-8 iteration + prologue/tail), the 32+136 unit vectors of (crc, data) and zero, at all 8 alignments
fn: lzma_crc32 lzma_crc32_generic
sentinels: 1
expect: 5
timeout: 1200
desc: the real lzma_crc32 agrees with the bit-at-a-time definition on a basis of the GF(2)-linear input space for buffers that exercise the alignment prologue, one slice-by-8 main-loop iteration and the tail (concrete evaluation of the real code); together with the table lemmas this pins the main loop up to the stated linear-algebra inference (DESIGN.md C14), it is NOT counted as a proof
*/
/*@obligation
id: C14.crc64.basis
props: C14
entry: h_crc64_basis
unwind: 20
kind: bounded
bound: 13-byte buffers (alignment prologue + slice-by-4 iterations + tail), the 64+104 unit vectors of (crc, data) and zero, at all 4 alignments
fn: lzma_crc64 lzma_crc64_generic
sentinels: 1
expect: 5
timeout: 1200
desc: the real lzma_crc64 agrees with the bit-at-a-time definition on a basis of the GF(2)-linear input space for buffers that exercise prologue, slice-by-4 main loop and tail; not counted as a proof (see C14.crc32.basis)
*/
/*@obligation
id: C14.sha256.lengths.0_33
defs: -DSHA_LO=0 -DSHA_HI=33
props: C14
entry: h_sha256_lengths
objbits: 12
unwind: 260
kind: bounded
bound: (slice 0..33 of) every message length 0..130 bytes (all 64 residues, one- and two-block paddings, three-block messages) with fixed byte content, fed in one piece and in two pieces split at every 7th position
fn: lzma_sha256_init lzma_sha256_update lzma_sha256_finish transform
sentinels: 1
expect: 5
timeout: 900
desc: lzma_sha256_init/update/finish produce the FIPS 180-4 digest (independent reference) for every message LENGTH 0..130: the 0x80 marker, zero fill, the extra block when fewer than 8 bytes remain, the 64-bit big-endian bit length and the big-endian output words; also when the message is fed in two pieces. Content is fixed, so the compression function is exercised, not proved
*/
/*@obligation
id: C14.sha256.lengths.34_66
defs: -DSHA_LO=34 -DSHA_HI=66
props: C14
entry: h_sha256_lengths
objbits: 12
unwind: 260
kind: bounded
bound: (slice 34..66 of) every message length 0..130 bytes (all 64 residues, one- and two-block paddings, three-block messages) with fixed byte content, fed in one piece and in two pieces split at every 7th position
fn: lzma_sha256_init lzma_sha256_update lzma_sha256_finish transform
sentinels: 1
expect: 5
timeout: 900
desc: lzma_sha256_init/update/finish produce the FIPS 180-4 digest (independent reference) for every message LENGTH 0..130: the 0x80 marker, zero fill, the extra block when fewer than 8 bytes remain, the 64-bit big-endian bit length and the big-endian output words; also when the message is fed in two pieces. Content is fixed, so the compression function is exercised, not proved
*/
/*@obligation
id: C14.sha256.lengths.67_99
defs: -DSHA_LO=67 -DSHA_HI=99
props: C14
entry: h_sha256_lengths
objbits: 12
unwind: 260
kind: bounded
bound: (slice 67..99 of) every message length 0..130 bytes (all 64 residues, one- and two-block paddings, three-block messages) with fixed byte content, fed in one piece and in two pieces split at every 7th position
fn: lzma_sha256_init lzma_sha256_update lzma_sha256_finish transform
sentinels: 1
expect: 5
timeout: 900
desc: lzma_sha256_init/update/finish produce the FIPS 180-4 digest (independent reference) for every message LENGTH 0..130: the 0x80 marker, zero fill, the extra block when fewer than 8 bytes remain, the 64-bit big-endian bit length and the big-endian output words; also when the message is fed in two pieces. Content is fixed, so the compression function is exercised, not proved
*/
/*@obligation
id: C14.sha256.lengths.100_130
defs: -DSHA_LO=100 -DSHA_HI=130
props: C14
entry: h_sha256_lengths
objbits: 12
unwind: 260
kind: bounded
bound: (slice 100..130 of) every message length 0..130 bytes (all 64 residues, one- and two-block paddings, three-block messages) with fixed byte content, fed in one piece and in two pieces split at every 7th position
fn: lzma_sha256_init lzma_sha256_update lzma_sha256_finish transform
sentinels: 1
expect: 5
timeout: 900
desc: lzma_sha256_init/update/finish produce the FIPS 180-4 digest (independent reference) for every message LENGTH 0..130: the 0x80 marker, zero fill, the extra block when fewer than 8 bytes remain, the 64-bit big-endian bit length and the big-endian output words; also when the message is fed in two pieces. Content is fixed, so the compression function is exercised, not proved
*/
/*@obligation
id: C14.check.dispatch
props: C14 C04
entry: h_check_dispatch
replace: lzma_crc32 lzma_crc64
unwind: 20
fn: lzma_check_init lzma_check_update lzma_check_finish lzma_check_size lzma_check_is_supported
sentinels: 3
expect: 10
desc: lzma_check_size = {0,4,4,4,8,8,8,16,16,16,32,32,32,64,64,64} and UINT32_MAX above 15; supported exactly NONE, CRC32, CRC64, SHA256; lzma_check_update for CRC32/CRC64 chains the running value through lzma_crc32/lzma_crc64 over exactly the given bytes; lzma_check_finish stores it little endian in the first 4/8 buffer bytes
assume: lzma_crc32/lzma_crc64 are used through their functional contracts here (enforced by C14.crc32.short / C14.crc64.short for n <= 8)
*/

#include "verif.h"
#include "spec_crc.h"
#include "spec_sha256.h"
#include "liblzma/common/common.h"
#include "liblzma/check/check.h"

#if defined(H_CRC) || 1
#include "contract_crc.h"
#ifdef VERIF_CBMC
/* compiler builtin without a CBMC model (crc64 slice-by-4 loop): identity */
void *__builtin_assume_aligned(const void *p, size_t a, ...) { (void)a; return (void *)p; }
#endif
#include "liblzma/check/crc32_fast.c"
#include "liblzma/check/crc64_fast.c"
#include "liblzma/check/sha256.c"
#include "liblzma/check/check.c"
#endif

struct in {
	uint8_t buf[24];
	size_t n, off;
	uint32_t crc; uint64_t crc64;
	uint32_t type;
};
static struct in IN VERIF_IN_INIT;

void h_crc32_tables(void)
{
	for (unsigned b = 0; b < 256; ++b) {
		ASSERT(lzma_crc32_table[0][b] == spec_crc32_bytestep(b, 0), "crc32 table[0][b] == eight bitwise steps of b");
		for (unsigned k = 1; k < 8; ++k)
			ASSERT(lzma_crc32_table[k][b] == spec_crc32_bytestep(lzma_crc32_table[k - 1][b], 0), "crc32 table[k][b] == table[k-1][b] advanced by a zero byte");
	}
	REACH(crc32_tables_done);
}

void h_crc64_tables(void)
{
	for (unsigned b = 0; b < 256; ++b) {
		ASSERT(lzma_crc64_table[0][b] == spec_crc64_bytestep(b, 0), "crc64 table[0][b] == eight bitwise steps of b");
		for (unsigned k = 1; k < 4; ++k)
			ASSERT(lzma_crc64_table[k][b] == spec_crc64_bytestep(lzma_crc64_table[k - 1][b], 0), "crc64 table[k][b] == table[k-1][b] advanced by a zero byte");
	}
	REACH(crc64_tables_done);
}

void h_crc32_short(void)
{
	HAVOC(IN, struct in);
	ASSUME(IN.n <= 8);
	const uint32_t r = lzma_crc32(IN.buf, IN.n, IN.crc);
	NATIVE_ASSERT(r == spec_crc32(IN.buf, IN.n, IN.crc), "lzma_crc32 == bitwise CRC-32");
	REACH_IF(IN.n == 8, crc32_short8);
}

void h_crc64_short(void)
{
	HAVOC(IN, struct in);
	ASSUME(IN.n <= 4);
	const uint64_t r = lzma_crc64(IN.buf, IN.n, IN.crc64);
	NATIVE_ASSERT(r == spec_crc64(IN.buf, IN.n, IN.crc64), "lzma_crc64 == bitwise CRC-64");
	REACH_IF(IN.n == 4, crc64_short4);
}

static uint8_t ALIGNED[32] __attribute__((aligned(8)));
void h_crc32_basis(void)
{
	/* zero vector and unit vectors of (crc, data[17]); data placed at offsets 0..7 of an 8-aligned array.
	 * The vector index and the alignment are symbolic; the vector itself is one-hot. */
	HAVOC(IN, struct in);
	const unsigned off = (unsigned)IN.off, v = (unsigned)IN.n;
	ASSUME(off < 8 && v <= 32 + 17 * 8);
	memset(ALIGNED, 0, sizeof(ALIGNED));
	uint32_t crc = 0;
	if (v >= 1 && v <= 32) crc = UINT32_C(1) << (v - 1);
	if (v > 32) ALIGNED[off + (v - 33) / 8] = (uint8_t)(1u << ((v - 33) % 8));
	ASSERT(lzma_crc32(ALIGNED + off, 17, crc) == spec_crc32(ALIGNED + off, 17, crc), "lzma_crc32 == bitwise CRC-32 on a basis vector (prologue + slice-by-8 iteration + tail)");
	REACH(crc32_basis_done);
}

void h_crc64_basis(void)
{
	HAVOC(IN, struct in);
	const unsigned off = (unsigned)IN.off, v = (unsigned)IN.n;
	ASSUME(off < 4 && v <= 64 + 13 * 8);
	memset(ALIGNED, 0, sizeof(ALIGNED));
	uint64_t crc = 0;
	if (v >= 1 && v <= 64) crc = UINT64_C(1) << (v - 1);
	if (v > 64) ALIGNED[off + (v - 65) / 8] = (uint8_t)(1u << ((v - 65) % 8));
	ASSERT(lzma_crc64(ALIGNED + off, 13, crc) == spec_crc64(ALIGNED + off, 13, crc), "lzma_crc64 == bitwise CRC-64 on a basis vector (prologue + slice-by-4 iterations + tail)");
	REACH(crc64_basis_done);
}

static void sha_ref_and_real(size_t n, size_t split)
{
	uint8_t msg[136];
	for (size_t i = 0; i < 136; ++i) msg[i] = (uint8_t)(i * 37 + 11);
	uint8_t want[32];
	fips_sha256(msg, n, want);
	lzma_check_state st;
	lzma_sha256_init(&st);
	if (split > n) split = n;
	lzma_sha256_update(msg, split, &st);
	lzma_sha256_update(msg + split, n - split, &st);
	lzma_sha256_finish(&st);
	for (int i = 0; i < 32; ++i)
		ASSERT(st.buffer.u8[i] == want[i], "SHA-256 digest equals FIPS 180-4 for this message length");
}

void h_sha256_lengths(void)
{
#ifndef SHA_LO
#	define SHA_LO 0
#	define SHA_HI 130
#endif
	for (size_t n = SHA_LO; n <= SHA_HI; ++n) {
		sha_ref_and_real(n, n);
		if (n % 7 == 3) sha_ref_and_real(n, n / 2 + 1);
	}
	REACH(sha_lengths_done);
}

void h_check_dispatch(void)
{
	HAVOC(IN, struct in);
	ASSUME(IN.n <= 4);
	static const uint8_t sizes[16] = { 0, 4, 4, 4, 8, 8, 8, 16, 16, 16, 32, 32, 32, 64, 64, 64 };
	ASSERT(lzma_check_size((lzma_check)IN.type) == (IN.type <= 15 ? sizes[IN.type <= 15 ? IN.type : 0] : UINT32_MAX), "lzma_check_size table");
	if (IN.type <= 15)
		ASSERT((bool)lzma_check_is_supported((lzma_check)IN.type) == (IN.type == 0 || IN.type == 1 || IN.type == 4 || IN.type == 10), "supported checks");
	else
		ASSERT(!lzma_check_is_supported((lzma_check)IN.type), "out-of-range check id is unsupported");
	lzma_check_state st; memset(&st, 0xEE, sizeof(st));
	if (IN.type == LZMA_CHECK_CRC32) {
		lzma_check_init(&st, LZMA_CHECK_CRC32);
		lzma_check_update(&st, LZMA_CHECK_CRC32, IN.buf, IN.n);
		lzma_check_update(&st, LZMA_CHECK_CRC32, IN.buf + IN.n, 4 - IN.n);
		lzma_check_finish(&st, LZMA_CHECK_CRC32);
		const uint32_t want = spec_crc32(IN.buf + IN.n, 4 - IN.n, spec_crc32(IN.buf, IN.n, 0));
		ASSERT(st.buffer.u8[0] == (uint8_t)want && st.buffer.u8[1] == (uint8_t)(want >> 8) && st.buffer.u8[2] == (uint8_t)(want >> 16) && st.buffer.u8[3] == (uint8_t)(want >> 24), "CRC32 check: chained over the pieces, stored little endian");
		REACH(disp_crc32);
	} else if (IN.type == LZMA_CHECK_CRC64) {
		lzma_check_init(&st, LZMA_CHECK_CRC64);
		lzma_check_update(&st, LZMA_CHECK_CRC64, IN.buf, IN.n);
		lzma_check_update(&st, LZMA_CHECK_CRC64, IN.buf + IN.n, 4 - IN.n);
		lzma_check_finish(&st, LZMA_CHECK_CRC64);
		const uint64_t want = spec_crc64(IN.buf + IN.n, 4 - IN.n, spec_crc64(IN.buf, IN.n, 0));
		for (int i = 0; i < 8; ++i) ASSERT(st.buffer.u8[i] == (uint8_t)(want >> (8 * i)), "CRC64 check: chained over the pieces, stored little endian");
		REACH(disp_crc64);
	} else {
		REACH(disp_other);
	}
}
