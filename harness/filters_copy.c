/* lzma_filters_copy / lzma_filters_free / lzma_validate_chain (src/liblzma/common/filter_common.c) and the memlimit API (common.c): C10, C09, C04. */

/*@obligation
id: C10.filters_copy
props: C10 C04 C12
entry: h_filters_copy
unwind: 20
fn: lzma_filters_copy lzma_filters_free
sentinels: 5
expect: 30
desc: lzma_filters_copy of any chain of 0..5 filters with any ids, options present or not, and ANY subset of allocations failing: on every non-OK return the destination array is bit-for-bit unchanged and every options object allocated so far has been freed exactly once (ghost live counter back to its entry value); on OK the destination holds the same ids, a private copy of each options object of the size the filter table prescribes, a LZMA_VLI_UNKNOWN terminator, and exactly one live allocation per non-NULL options; more than four filters or an unknown id with options is OPTIONS_ERROR; lzma_filters_free releases each copy once and resets ids/pointers
assume: memcpy inside filter_common.c is modelled by a word/byte loop (cbmc's built-in memcpy with a symbolic length mis-models the final array copy)
assume: lzma_alloc/lzma_free are a ghost allocator on top of malloc with a failure mask (k-th call fails iff bit k)
*/
/*@obligation
id: C09.memlimit_api
props: C09 C04 C11
entry: h_memlimit_api
unwind: 4
restrict: lzma_memusage.function_pointer_call.1/stub_memconfig lzma_memlimit_get.function_pointer_call.1/stub_memconfig lzma_memlimit_set.function_pointer_call.1/stub_memconfig
fn: lzma_memusage lzma_memlimit_get lzma_memlimit_set
sentinels: 3
expect: 10
desc: lzma_memusage / lzma_memlimit_get return 0 for NULL, uninitialised handles or coders without memory limiting, else what the coder's memconfig reports (queried with new limit 0 = no change); lzma_memlimit_set returns PROG_ERROR for such handles, turns a limit of 0 into 1 and otherwise passes the request and the coder's verdict (e.g. MEMLIMIT_ERROR when below current usage) through unchanged
assume: the coder's memconfig callback is a recording stub (the real ones: C03.stream.*, C16.alone.header, C16.lzip.*, C16.auto)
*/

#include "verif.h"
#include "liblzma/common/common.h"
#include <stdlib.h>

static struct { unsigned allocs, live, frees; uint32_t fail_mask; size_t sizes[8]; } GA;
#define lzma_alloc real_lzma_alloc
#define lzma_alloc_zero real_lzma_alloc_zero
#define lzma_free real_lzma_free
#include "liblzma/common/common.c"
#undef lzma_alloc
#undef lzma_alloc_zero
#undef lzma_free
void *lzma_alloc(size_t s, const lzma_allocator *a)
{
	(void)a; const unsigned k = GA.allocs++;
	if (k < 8) GA.sizes[k] = s;
	if ((GA.fail_mask >> (k & 31)) & 1) return NULL;
	void *p = malloc(s); if (p) ++GA.live; return p;
}
void lzma_free(void *p, const lzma_allocator *a) { (void)a; if (p) { --GA.live; ++GA.frees; free(p); } }

#include "memcpy_model.h"
#define memcpy verif_memcpy
#include "liblzma/common/filter_common.c"
#undef memcpy

struct in {
	uint32_t n; uint64_t ids[5]; uint8_t has_opt[5]; uint32_t fail_mask; uint8_t src_null, dest_null;
	uint64_t old_ids[5];
	uint8_t strm_null, internal_null, mc_null; uint64_t new_limit, mc_usage, mc_old; uint32_t mc_ret;
};
static struct in IN VERIF_IN_INIT;

static uint64_t OPTSRC[5][16]; /* 128 bytes each: larger than any options struct */
static int OLDOPT[5];

void h_filters_copy(void)
{
	HAVOC(IN, struct in);
	ASSUME(IN.n <= 5 && IN.src_null <= 1 && IN.dest_null <= 1);
	lzma_filter src[7], dest[6], snap[6];
	for (unsigned k = 0; k < 7; ++k) {
		const bool in_chain = k < IN.n;
		ASSUME(!in_chain || IN.ids[k < 5 ? k : 4] != LZMA_VLI_UNKNOWN);
		ASSUME(!in_chain || IN.has_opt[k < 5 ? k : 4] <= 1);
		src[k].id = in_chain ? IN.ids[k] : LZMA_VLI_UNKNOWN;
		src[k].options = (in_chain && IN.has_opt[k]) ? (void *)OPTSRC[k] : NULL;
	}
	for (unsigned k = 0; k < 6; ++k) { dest[k].id = IN.old_ids[k < 5 ? k : 4]; dest[k].options = &OLDOPT[k < 5 ? k : 4]; snap[k] = dest[k]; }
	OPTSRC[0][0] = 0x1122334455667788ULL;
	memset(&GA, 0, sizeof(GA)); GA.fail_mask = IN.fail_mask;
	const lzma_ret r = lzma_filters_copy(IN.src_null ? NULL : src, IN.dest_null ? NULL : dest, NULL);
	if (IN.src_null || IN.dest_null) { ASSERT(r == LZMA_PROG_ERROR && GA.allocs == 0, "NULL arguments"); return; }
	if (r != LZMA_OK) {
		for (unsigned k = 0; k < 6; ++k) ASSERT(dest[k].id == snap[k].id && dest[k].options == snap[k].options, "on failure the destination array is unchanged");
		ASSERT(GA.live == 0, "on failure every options copy made so far has been freed (nothing leaks)");
		ASSERT(r == LZMA_MEM_ERROR || r == LZMA_OPTIONS_ERROR, "only MEM_ERROR / OPTIONS_ERROR");
		REACH_IF(r == LZMA_MEM_ERROR && GA.frees >= 1, fcopy_mem_error_after_partial);
		REACH_IF(r == LZMA_OPTIONS_ERROR && IN.n == 5, fcopy_too_many);
		REACH_IF(r == LZMA_OPTIONS_ERROR && IN.n < 5, fcopy_unknown_id);
		return;
	}
	ASSERT(IN.n <= 4, "at most four filters");
	unsigned nopt = 0;
	for (unsigned k = 0; k < 5; ++k) {
		if (k >= IN.n) break;
		ASSERT(dest[k].id == IN.ids[k], "ids copied in order");
		if (IN.has_opt[k]) { ASSERT(dest[k].options != NULL && dest[k].options != (void *)OPTSRC[k], "options are a private copy"); ++nopt; }
		else ASSERT(dest[k].options == NULL, "absent options stay absent");
	}
	ASSERT(dest[IN.n].id == LZMA_VLI_UNKNOWN && dest[IN.n].options == NULL, "terminator");
	ASSERT(GA.live == nopt, "exactly one live allocation per options object");
	if (IN.n >= 1 && IN.has_opt[0] && IN.ids[0] == LZMA_FILTER_LZMA2) ASSERT(*(uint64_t *)dest[0].options == 0x1122334455667788ULL, "options content copied");
	if (IN.n >= 1 && IN.has_opt[0] && IN.ids[0] == LZMA_FILTER_LZMA2) ASSERT(GA.sizes[0] == sizeof(lzma_options_lzma), "copy has the size the filter table prescribes");
	REACH_IF(nopt >= 2, fcopy_ok_two_options);
	lzma_filters_free(dest, NULL);
	ASSERT(GA.live == 0, "lzma_filters_free releases every copy exactly once");
	for (unsigned k = 0; k < 5; ++k) if (k < IN.n) ASSERT(dest[k].id == LZMA_VLI_UNKNOWN && dest[k].options == NULL, "freed array is reset");
	REACH(fcopy_freed);
}

static struct { unsigned calls; uint64_t new_limit; } GM;
static lzma_ret stub_memconfig(void *c, uint64_t *memusage, uint64_t *old, uint64_t nl)
{ (void)c; ++GM.calls; GM.new_limit = nl; *memusage = IN.mc_usage; *old = IN.mc_old; return (lzma_ret)IN.mc_ret; }
lzma_ret (*verif_keep_mc2)(void *, uint64_t *, uint64_t *, uint64_t) = &stub_memconfig;

void h_memlimit_api(void)
{
	HAVOC(IN, struct in);
	ASSUME(IN.strm_null <= 1 && IN.internal_null <= 1 && IN.mc_null <= 1 && (IN.mc_ret == LZMA_OK || IN.mc_ret == LZMA_MEMLIMIT_ERROR || IN.mc_ret == LZMA_PROG_ERROR));
	static lzma_stream S; static lzma_internal I; static int CO;
	memset(&S, 0, sizeof(S)); memset(&I, 0, sizeof(I));
	S.internal = IN.internal_null ? NULL : &I;
	I.next.coder = &CO; I.next.memconfig = IN.mc_null ? NULL : &stub_memconfig;
	lzma_stream *sp = IN.strm_null ? NULL : &S;
	const bool usable = !IN.strm_null && !IN.internal_null && !IN.mc_null;
	GM.calls = 0;
	const uint64_t u = lzma_memusage(sp);
	ASSERT(u == ((usable && IN.mc_ret == LZMA_OK) ? IN.mc_usage : 0) && (!usable || GM.new_limit == 0), "lzma_memusage: the coder's figure, 0 when there is none; does not change the limit");
	const uint64_t g = lzma_memlimit_get(sp);
	ASSERT(g == ((usable && IN.mc_ret == LZMA_OK) ? IN.mc_old : 0), "lzma_memlimit_get");
	GM.calls = 0;
	const lzma_ret r = lzma_memlimit_set(sp, IN.new_limit);
	if (!usable) { ASSERT(r == LZMA_PROG_ERROR && GM.calls == 0, "no memory limiting available: PROG_ERROR"); REACH(ml_prog); return; }
	ASSERT(GM.calls == 1 && GM.new_limit == (IN.new_limit == 0 ? 1 : IN.new_limit) && r == (lzma_ret)IN.mc_ret, "limit 0 means 1; the coder's verdict is returned unchanged");
	REACH_IF(r == LZMA_MEMLIMIT_ERROR, ml_refused);
	REACH_IF(r == LZMA_OK && IN.new_limit == 0, ml_zero);
}
