/* lzma_index (src/liblzma/common/index.c): arithmetic, append, stream_flags/padding, dup (C13, C09, C10). */

/*@obligation
id: C13.arith
props: C13 C02 C04
entry: h_index_arith
unwind: 11
fn: vli_ceil4 index_size_unpadded index_size index_stream_size index_file_size lzma_index_memusage
sentinels: 3
expect: 10
desc: Index size arithmetic equals the format definition for all counts/list sizes in VLI range: unpadded = 1 + vli_size(count) + list + 4, size = that rounded up to 4, padding = (4 - unpadded mod 4) mod 4; index_file_size = base + 24 + padding + ceil4(blocks) + index size, LZMA_VLI_UNKNOWN exactly when that exceeds LZMA_VLI_MAX (no wrap); lzma_index_memusage never wraps (UINT64_MAX instead) and is monotone in the allocation it models
*/

/*@obligation
id: C13.append
props: C13 C10 C04
entry: h_index_append
enforce: w_index_append
replace: index_tree_append
unwind: 40
fn: lzma_index_append index_file_size index_size
sentinels: 6
expect: 30
desc: lzma_index_append from ANY well-formed last-stream/last-group state and ANY sizes: non-OK result leaves every field of the index, stream and group unchanged and allocates nothing net; OK adds exactly one record with cumulative sums old+size, record_count+1, total_size += ceil4(unpadded), uncompressed_size += size, index_list_size += vli_size(u)+vli_size(c) on index and stream; PROG_ERROR iff arguments invalid; DATA_ERROR iff a format limit (VLI_MAX, UNPADDED_SIZE_MAX, file size, Backward Size 2^34) would be exceeded; group reused iff room, else allocated with i->prealloc records
assume: index_tree_append is used through its contract (count+1, rightmost=node, node links reset); its tree-internal frame is checked only on bounded shapes (C13.tree)
*/

/*@obligation
id: C13.stream_padding
props: C13 C04
entry: h_index_padding
enforce: w_index_padding
unwind: 11
fn: lzma_index_stream_padding lzma_index_file_size
sentinels: 3
expect: 10
desc: lzma_index_stream_padding: PROG_ERROR iff NULL index, padding > VLI_MAX or not a multiple of 4; DATA_ERROR iff file size with the new padding would exceed VLI_MAX, and then the old padding is restored; OK sets exactly the last stream's padding
*/

/*@obligation
id: C13.stream_flags
props: C13 C04
entry: h_index_sflags
unwind: 11
fn: lzma_index_stream_flags lzma_index_checks
sentinels: 2
expect: 5
desc: lzma_index_stream_flags validates (version 0, check<=15, backward size valid or unknown) before storing; stores into the last stream only; lzma_index_checks = accumulated mask | (1<<check of last stream if set)
*/

/*@obligation
id: C13.dup.copy
props: C13
entry: h_index_dup
defs: -DDUP_MASK=0 -DDUP_NOFAIL=1
unwind: 8
kind: bounded
bound: source index shape: 2 streams; stream 1 with 2 groups (2+1 records), stream 2 with 1 group; all numeric fields symbolic; no allocation failure
cbmc: --no-malloc-may-fail
timeout: 400
fn: lzma_index_dup index_dup_stream index_tree_append index_tree_next lzma_index_checks
sentinels: 1
expect: 30
assume: memcpy inside index.c is modelled by a record-wise copy loop (cbmc's built-in memcpy model crashes on the flexible array member)
desc: lzma_index_dup: the duplicate reports the same uncompressed_size, total_size, record_count, index_list_size, checks mask (lzma_index_checks), stream count, per-stream flags/padding/bases and the same records in order; lzma_index_end releases it completely
*/

/*@obligation
id: C13.dup.leak
props: C10 C13
entry: h_index_dup
defs: -DDUP_LEAK_ONLY=1
unwind: 4
kind: bounded
bound: same shape; the k-th allocation fails, every k
cbmc: --no-malloc-may-fail
timeout: 600
fn: lzma_index_dup index_dup_stream lzma_index_end index_stream_end
sentinels: 2
expect: 30
replay: none
assume: memcpy inside index.c is modelled by a record-wise copy loop
desc: lzma_index_dup when its k-th allocation fails (every k): returns NULL with the ghost live-allocation counter back at its entry value (nothing leaks, nothing freed twice)
*/

/*@obligation
id: C13.tree
props: C13 C04
entry: h_index_tree
unwind: 12
solver: minisat
kind: bounded
bound: n <= 9 sequential appends (crosses 3 rotation levels)
fn: index_tree_append index_tree_next index_tree_locate
sentinels: 1
expect: 30
replay: none
desc: after n sequential index_tree_append calls, in-order traversal with index_tree_next from leftmost visits the nodes in insertion order and ends with NULL, parent/child links are mutually consistent, rightmost/leftmost/count are right, index_tree_locate(t) returns the last node with base <= t
*/

/*@obligation
id: C13.cat
props: C13 C04
entry: h_index_history
defs: -DHIST_CAT
unwind: 4
kind: bounded
bound: one history shape through the public API: index A = 3 appends (two groups: 2+1 records), stream padding set, index B = 2 appends, lzma_index_cat(A, B); every unpadded size in 5..2^32, every uncompressed size in 0..2^32 (empty Blocks included), padding a multiple of 4 up to 2^32
cbmc: --no-malloc-may-fail --unwindset lzma_vli_size.0:11,h_index_history.0:6,h_index_history.1:6,h_index_history.2:6,h_index_history.3:6,h_index_history.4:6,h_index_history.5:6,h_index_history.6:6,h_index_history.7:6,h_index_history.8:6
timeout: 1200
fn: lzma_index_init lzma_index_append lzma_index_stream_padding lzma_index_cat index_cat_helper lzma_index_file_size lzma_index_total_size lzma_index_uncompressed_size
sentinels: 1
expect: 40
assume: memcpy inside index.c is modelled by a record-wise copy loop
desc: list-of-records model against the real Index after append x3, stream_padding, append x2, lzma_index_cat: block/stream counts, uncompressed size, total size, index size and file size equal the sums over the model's records; the moved Stream is rebased exactly after the first Stream (compressed base = size of Stream 1 + its padding, uncompressed base = its uncompressed size, stream number 2, block number base 3) and keeps its records; Stream 1's last group is shrunk to its used records without changing them; exactly the six live objects remain allocated (B's shell and the replaced group are freed)
*/
/*@obligation
id: C13.iter
props: C13 C04
entry: h_index_history
defs: -DHIST_ITER=3
unwind: 4
kind: bounded
bound: one history shape: a single-Stream index built by 3 appends into groups of 2+1 records; every unpadded size in 5..2^32, every uncompressed size in 0..2^32 (empty Blocks included), arbitrary target offset
cbmc: --no-malloc-may-fail --unwindset lzma_vli_size.0:11,h_index_history.0:6,h_index_history.1:6,h_index_history.2:6,h_index_history.3:6,h_index_history.4:6,h_index_history.5:6,h_index_history.6:6,h_index_history.7:6,h_index_history.8:6
timeout: 1500
fn: lzma_index_append lzma_index_iter_init lzma_index_iter_next lzma_index_iter_locate iter_set_info index_tree_locate index_tree_next
sentinels: 3
expect: 40
assume: memcpy inside index.c is modelled by a record-wise copy loop
desc: iterating in BLOCK mode over an index built by 3 appends visits the Blocks once, in order, each with the model's unpadded/uncompressed/total size, number in file/stream and stream/file offsets (sums of the records before it), then reports the end; lzma_index_iter_locate(target) fails exactly for target >= total uncompressed size and otherwise returns THE Block whose uncompressed range contains target -- never an empty one
*/
/*@obligation
id: C13.iter.4
props: C13 C04
entry: h_index_history
defs: -DHIST_ITER=4
tier: thorough
unwind: 4
kind: bounded
bound: one history shape: a single-Stream index built by 4 appends into groups of 2 records; every unpadded size in 5..2^32, every uncompressed size in 0..2^32 (empty Blocks included), arbitrary target offset
cbmc: --no-malloc-may-fail --unwindset lzma_vli_size.0:11,h_index_history.0:6,h_index_history.1:6,h_index_history.2:6,h_index_history.3:6,h_index_history.4:6,h_index_history.5:6,h_index_history.6:6,h_index_history.7:6,h_index_history.8:6
timeout: 1500
fn: lzma_index_append lzma_index_iter_init lzma_index_iter_next lzma_index_iter_locate iter_set_info index_tree_locate index_tree_next
sentinels: 3
expect: 40
assume: memcpy inside index.c is modelled by a record-wise copy loop
desc: iterating in BLOCK mode over an index built by 4 appends visits the Blocks once, in order, each with the model's unpadded/uncompressed/total size, number in file/stream and stream/file offsets (sums of the records before it), then reports the end; lzma_index_iter_locate(target) fails exactly for target >= total uncompressed size and otherwise returns THE Block whose uncompressed range contains target -- never an empty one
*/

#include "verif.h"
#include <stddef.h>
#include "spec_vli.h"
#include "liblzma/common/common.h"

/* ghost allocator */
static unsigned g_live, g_allocs, g_alloc_fail_mask;
static size_t g_last_size;
static void *g_last_ptr;
static bool g_static_pool, g_pool_used;
static void *g_pool;
#define POOLSZ 256
#include <stdlib.h>
void *lzma_alloc(size_t size, const lzma_allocator *allocator)
{
	(void)allocator;
	const unsigned k = g_allocs++;
	if (k < 32 && ((g_alloc_fail_mask >> k) & 1))
		return NULL;
	void *p;
	if (g_static_pool) {
		/* one static, suitably sized object: keeps the append obligation free of symbolic-size dynamic objects */
		/* constant-size dynamic object (a symbolic malloc size made the SAT instance explode) */
		if (size > POOLSZ || g_pool_used) return NULL;
		g_pool_used = true;
		p = malloc(POOLSZ);
		g_pool = p;
	} else {
		p = malloc(size);
	}
	if (p != NULL) { ++g_live; g_last_size = size; g_last_ptr = p; }
	return p;
}
void lzma_free(void *ptr, const lzma_allocator *allocator)
{
	(void)allocator;
	if (ptr != NULL) { --g_live; if (ptr == g_pool) g_pool_used = false; free(ptr); }
}

#include "liblzma/common/vli_size.c"
#include "liblzma/common/stream_flags_common.c"
/* CBMC 6.11 crashes (boolbv_get invariant) when it has to build a model through its built-in
 * memcpy of a flexible array member (index_dup_stream, lzma_index_cat). memcpy is therefore
 * modelled by a plain byte loop inside this translation unit (stated in evidence.assumptions). */
static void *verif_memcpy(void *d, const void *s, size_t n)
{
	/* every memcpy in index.c copies arrays of index_record (16 bytes each) */
	struct verif_rec16 { uint64_t a, b; };
	ASSERT(n % 16 == 0, "memcpy model: size is a multiple of sizeof(index_record)");
	for (size_t k = 0; k < n / 16; ++k)
		((struct verif_rec16 *)d)[k] = ((const struct verif_rec16 *)s)[k];
	return d;
}
#define memcpy verif_memcpy
#include "liblzma/common/index.c"
#undef memcpy

#define VMAX LZMA_VLI_MAX
#define BSMAX (UINT64_C(1) << 34)

/* ------------ spec arithmetic (format definitions, overflow-free on the stated domains) ------------ */
static uint64_t spec_ceil4(uint64_t v) { return (v % 4 == 0) ? v : v + (4 - v % 4); }
static uint64_t spec_index_unpadded(uint64_t count, uint64_t list) { return 1 + spec_vli_size(count) + list + 4; }
static uint64_t spec_index_size(uint64_t count, uint64_t list) { return spec_ceil4(spec_index_unpadded(count, list)); }
/* file size of a stream ending at the given sums; SPEC_FS_UNKNOWN if above VLI_MAX; arguments each <= VMAX */
#define SPEC_FS_UNKNOWN UINT64_MAX
static uint64_t spec_file_size(uint64_t base, uint64_t unpadded_sum, uint64_t count, uint64_t list, uint64_t padding)
{
	/* each addend <= 2^63, add step by step with explicit limit checks */
	uint64_t s = base;
	if (s > VMAX) return SPEC_FS_UNKNOWN;
	s += 24; if (s > VMAX) return SPEC_FS_UNKNOWN;
	if (padding > VMAX - s) return SPEC_FS_UNKNOWN;
	s += padding;
	const uint64_t b = spec_ceil4(unpadded_sum);
	if (b > VMAX - s) return SPEC_FS_UNKNOWN;
	s += b;
	const uint64_t ix = spec_index_size(count, list);
	if (ix > VMAX - s) return SPEC_FS_UNKNOWN;
	s += ix;
	return s;
}

struct in {
	/* arithmetic */
	uint64_t a_count, a_list, a_base, a_unp, a_pad, m_streams, m_blocks;
	/* index / stream / group state */
	uint8_t i_null, has_group, alloc_fail;
	uint64_t s_comp_base, s_unc_base, s_record_count, s_ils, s_padding;
	uint64_t g_last, g_alloc, rec_unc, rec_unp, g_number_base;
	uint64_t i_unc, i_total, i_rc, i_ils, i_prealloc;
	uint32_t i_checks, s_version, s_check;
	uint64_t s_backward;
	/* arguments */
	uint64_t unpadded, uncompressed, padding;
	uint32_t f_version, f_check; uint64_t f_backward;
	/* dup shape */
	uint8_t s2_has_group;
	uint64_t r[4][2];
	uint32_t n;
	uint64_t bases[9], target;
	/* history */
	uint64_t hu[5], hc[5], hpad, htarget;
};
static struct in IN VERIF_IN_INIT;

#define GCAP 4
static lzma_index I;
static index_stream S;
static union { index_group g; uint8_t raw[sizeof(index_group) + GCAP * sizeof(index_record)]; } GB;
#define G (&GB.g)
#define GREC ((index_record *)(GB.raw + offsetof(index_group, records)))

/* snapshot for "unchanged" checks */
struct snap { lzma_index i; index_stream s; index_group g; index_record rec[GCAP]; unsigned live; };
static struct snap PRE;

static void take_snap(void)
{
	PRE.i = I; PRE.s = S; PRE.g = *G;
	for (int k = 0; k < GCAP; ++k) PRE.rec[k] = GREC[k];
	PRE.live = g_live;
}

static bool unchanged(void)
{
	if (PRE.i.streams.root != I.streams.root || PRE.i.streams.leftmost != I.streams.leftmost || PRE.i.streams.rightmost != I.streams.rightmost
			|| PRE.i.streams.count != I.streams.count || PRE.i.uncompressed_size != I.uncompressed_size || PRE.i.total_size != I.total_size
			|| PRE.i.record_count != I.record_count || PRE.i.index_list_size != I.index_list_size || PRE.i.prealloc != I.prealloc
			|| PRE.i.checks != I.checks)
		return false;
	if (PRE.s.node.uncompressed_base != S.node.uncompressed_base || PRE.s.node.compressed_base != S.node.compressed_base
			|| PRE.s.node.parent != S.node.parent || PRE.s.node.left != S.node.left || PRE.s.node.right != S.node.right
			|| PRE.s.number != S.number || PRE.s.block_number_base != S.block_number_base
			|| PRE.s.groups.root != S.groups.root || PRE.s.groups.leftmost != S.groups.leftmost || PRE.s.groups.rightmost != S.groups.rightmost
			|| PRE.s.groups.count != S.groups.count || PRE.s.record_count != S.record_count || PRE.s.index_list_size != S.index_list_size
			|| PRE.s.stream_flags.version != S.stream_flags.version || PRE.s.stream_flags.check != S.stream_flags.check
			|| PRE.s.stream_flags.backward_size != S.stream_flags.backward_size || PRE.s.stream_padding != S.stream_padding)
		return false;
	if (PRE.g.last != G->last || PRE.g.allocated != G->allocated || PRE.g.number_base != G->number_base
			|| PRE.g.node.parent != G->node.parent || PRE.g.node.left != G->node.left || PRE.g.node.right != G->node.right
			|| PRE.g.node.compressed_base != G->node.compressed_base || PRE.g.node.uncompressed_base != G->node.uncompressed_base)
		return false;
	for (int k = 0; k < GCAP; ++k)
		if (PRE.rec[k].uncompressed_sum != GREC[k].uncompressed_sum || PRE.rec[k].unpadded_sum != GREC[k].unpadded_sum)
			return false;
	return g_live == PRE.live;
}

/* build the concrete last-stream / last-group state from IN */
static void build_state(void)
{
	memset(&I, 0, sizeof(I)); memset(&S, 0, sizeof(S)); memset(&GB, 0, sizeof(GB));
	I.streams.root = &S.node; I.streams.leftmost = &S.node; I.streams.rightmost = &S.node; I.streams.count = 1;
	I.uncompressed_size = IN.i_unc; I.total_size = IN.i_total; I.record_count = IN.i_rc;
	I.index_list_size = IN.i_ils; I.prealloc = IN.i_prealloc; I.checks = IN.i_checks;
	S.node.compressed_base = IN.s_comp_base; S.node.uncompressed_base = IN.s_unc_base;
	S.number = 1; S.record_count = IN.s_record_count; S.index_list_size = IN.s_ils;
	S.stream_padding = IN.s_padding; S.stream_flags.version = IN.s_version;
	S.stream_flags.check = (lzma_check)IN.s_check; S.stream_flags.backward_size = IN.s_backward;
	if (IN.has_group) {
		S.groups.root = &G->node; S.groups.leftmost = &G->node; S.groups.rightmost = &G->node; S.groups.count = 1;
		G->last = IN.g_last; G->allocated = IN.g_alloc; G->number_base = IN.g_number_base;
		GREC[IN.g_last].uncompressed_sum = IN.rec_unc;
		GREC[IN.g_last].unpadded_sum = IN.rec_unp;
	}
	g_live = 0; g_allocs = 0; g_alloc_fail_mask = IN.alloc_fail ? ~0u : 0;
	g_static_pool = true; g_pool_used = false;
}

/* representation invariant of the part of the index that append/padding read */
static bool wf_state(void)
{
	if (IN.i_null > 1 || IN.has_group > 1 || IN.alloc_fail > 1) return false;
	if (IN.has_group) {
		if (IN.g_alloc == 0 || IN.g_alloc > GCAP || IN.g_last >= IN.g_alloc) return false;
		if (IN.rec_unc > VMAX || IN.rec_unp > UNPADDED_SIZE_MAX || IN.rec_unp < 5) return false;
		if (IN.s_record_count == 0) return false;
	} else {
		if (IN.s_record_count != 0 || IN.s_ils != 0) return false;
	}
	if (IN.i_prealloc == 0 || IN.i_prealloc > GCAP) return false;
	if (IN.s_padding > VMAX || (IN.s_padding & 3) != 0) return false;
	/* per-stream counters are part of the whole-index counters; each record has >= 2 list bytes and <= 18 */
	if (IN.s_record_count > IN.i_rc || IN.s_ils > IN.i_ils) return false;
	if (IN.i_rc > IN.i_ils / 2 || IN.s_record_count > IN.s_ils / 2) return false;
	if (spec_index_size(IN.i_rc, IN.i_ils) > BSMAX || IN.i_ils > BSMAX) return false;
	/* the existing index describes a file of valid size */
	if (spec_file_size(IN.s_comp_base, IN.has_group ? IN.rec_unp : 0, IN.s_record_count, IN.s_ils, IN.s_padding) == SPEC_FS_UNKNOWN)
		return false;
	if (IN.i_unc > VMAX || IN.i_total > VMAX) return false;
	return true;
}

/* ---------------- arithmetic ---------------- */
void h_index_arith(void)
{
	HAVOC(IN, struct in);
	ASSUME(IN.a_count <= VMAX && IN.a_list <= BSMAX * 2);
	ASSERT(index_size_unpadded(IN.a_count, IN.a_list) == spec_index_unpadded(IN.a_count, IN.a_list), "index_size_unpadded = 1 + vli_size(count) + list + 4");
	ASSERT(index_size(IN.a_count, IN.a_list) == spec_index_size(IN.a_count, IN.a_list), "index_size is the unpadded size rounded up to a multiple of 4");
	ASSERT(index_size(IN.a_count, IN.a_list) % 4 == 0 && index_size(IN.a_count, IN.a_list) - index_size_unpadded(IN.a_count, IN.a_list) < 4, "0..3 padding bytes");
	{
		lzma_index t; memset(&t, 0, sizeof(t)); t.record_count = IN.a_count; t.index_list_size = IN.a_list;
		ASSERT(lzma_index_padding_size(&t) == index_size(IN.a_count, IN.a_list) - index_size_unpadded(IN.a_count, IN.a_list), "lzma_index_padding_size");
		ASSERT(lzma_index_size(&t) == spec_index_size(IN.a_count, IN.a_list), "lzma_index_size");
	}
	if (IN.a_unp <= UNPADDED_SIZE_MAX) {
		ASSERT(vli_ceil4(IN.a_unp) == spec_ceil4(IN.a_unp), "vli_ceil4 rounds up to a multiple of four");
		if (IN.a_base <= VMAX && IN.a_pad <= VMAX) {
			const uint64_t fs = spec_file_size(IN.a_base, IN.a_unp, IN.a_count, IN.a_list, IN.a_pad);
			const bool ok = fs != SPEC_FS_UNKNOWN;
			/* base + padding may not wrap 64 bits: the callers guarantee base + 24 + padding <= VLI_MAX (existing file size) */
			if (IN.a_pad <= VMAX - 24 && IN.a_base <= VMAX - 24 - IN.a_pad) {
				const lzma_vli r = index_file_size(IN.a_base, IN.a_unp, IN.a_count, IN.a_list, IN.a_pad);
				ASSERT(ok ? r == fs : r == LZMA_VLI_UNKNOWN, "index_file_size equals the format's sum, UNKNOWN iff > LZMA_VLI_MAX");
				REACH_IF(!ok, file_size_unknown);
				REACH_IF(ok && fs == VMAX, file_size_max);
			}
		}
	}
	/* memusage: no wrap, UINT64_MAX on overflow, otherwise at least what init+append allocate */
	{
		const uint64_t mu = lzma_index_memusage(IN.m_streams, IN.m_blocks);
		if (IN.m_streams == 0 || IN.m_streams > UINT32_MAX || IN.m_blocks > VMAX)
			ASSERT(mu == UINT64_MAX, "memusage rejects impossible arguments");
		if (mu != UINT64_MAX) {
			const uint64_t groups = IN.m_blocks / INDEX_GROUP_SIZE + (IN.m_blocks % INDEX_GROUP_SIZE != 0);
			/* what lzma_index_init + appends really allocate: one lzma_index, per stream one index_stream, per 512 blocks one group */
			ASSERT(groups <= UINT64_MAX / (sizeof(index_group) + INDEX_GROUP_SIZE * sizeof(index_record)), "no wrap in group bytes");
			const uint64_t need_g = groups * (sizeof(index_group) + INDEX_GROUP_SIZE * sizeof(index_record));
			const uint64_t need_s = IN.m_streams * sizeof(index_stream);
			ASSERT(mu >= sizeof(lzma_index) && mu - sizeof(lzma_index) >= need_s && mu - sizeof(lzma_index) - need_s >= need_g,
					"memusage estimate is an upper bound of the bytes allocated for streams and groups");
			REACH(memusage_finite);
		}
	}
}

/* ---------------- contract of the static callee index_tree_append (late re-declaration) ---------------- */
static void index_tree_append(index_tree *tree, index_tree_node *node)
REQUIRES(__CPROVER_rw_ok(tree, sizeof(*tree)) && __CPROVER_rw_ok(node, sizeof(*node)))
ASSIGNS(*tree, node->parent, node->left, node->right)
/* pointer facts about havocked pointers must be stated with __CPROVER_pointer_equals: a plain ==
 * does not refine CBMC's value sets and later dereferences would read an invalid object */
ENSURES(tree->count == OLD(tree->count) + 1 && __CPROVER_pointer_equals(tree->rightmost, node))
ENSURES(OLD(tree->root) == NULL
	? (__CPROVER_pointer_equals(tree->root, node) && __CPROVER_pointer_equals(tree->leftmost, node))
	: (__CPROVER_pointer_equals(tree->leftmost, OLD(tree->leftmost)) && tree->root != NULL));

/* ---------------- append ---------------- */
static bool pre_append(void) { return wf_state(); }

static lzma_ret spec_append_ret(void)
{
	if (IN.i_null || IN.unpadded < 5 || IN.unpadded > UNPADDED_SIZE_MAX || IN.uncompressed > VMAX)
		return LZMA_PROG_ERROR;
	const uint64_t cbase = IN.has_group ? spec_ceil4(IN.rec_unp) : 0;
	const uint64_t ubase = IN.has_group ? IN.rec_unc : 0;
	const uint64_t add = spec_vli_size(IN.unpadded) + spec_vli_size(IN.uncompressed);
	if (IN.uncompressed > VMAX - ubase) return LZMA_DATA_ERROR;
	if (IN.unpadded > UNPADDED_SIZE_MAX - cbase) return LZMA_DATA_ERROR;
	if (spec_file_size(IN.s_comp_base, cbase + IN.unpadded, IN.s_record_count + 1, IN.s_ils + add, IN.s_padding) == SPEC_FS_UNKNOWN)
		return LZMA_DATA_ERROR;
	if (spec_index_size(IN.i_rc + 1, IN.i_ils + add) > BSMAX) return LZMA_DATA_ERROR;
	const bool reuse = IN.has_group && IN.g_last + 1 < IN.g_alloc;
	if (!reuse && IN.alloc_fail) return LZMA_MEM_ERROR;
	return LZMA_OK;
}

static bool post_append(lzma_ret r)
{
	const lzma_ret want = spec_append_ret();
	if (r != want) {
		/* malloc itself may fail although the stub was not told to: MEM_ERROR is then legitimate */
		if (!(want == LZMA_OK && r == LZMA_MEM_ERROR))
			return false;
	}
	if (r != LZMA_OK)
		return unchanged();
	const uint64_t cbase = IN.has_group ? spec_ceil4(IN.rec_unp) : 0;
	const uint64_t ubase = IN.has_group ? IN.rec_unc : 0;
	const uint64_t add = spec_vli_size(IN.unpadded) + spec_vli_size(IN.uncompressed);
	const bool reuse = IN.has_group && IN.g_last + 1 < IN.g_alloc;
	const index_group *g = (const index_group *)S.groups.rightmost;
	CHK(!(g == NULL));
	if (reuse) {
		CHK(!(g != G || g->last != IN.g_last + 1 || g->allocated != IN.g_alloc || g_live != PRE.live));
		/* the previous record is untouched */
		CHK(!(GREC[IN.g_last].uncompressed_sum != IN.rec_unc || GREC[IN.g_last].unpadded_sum != IN.rec_unp));
	} else {
		CHK(!(g == G || (const void *)g != g_last_ptr || g_live != PRE.live + 1));
		CHK(!(g_last_size != sizeof(index_group) + IN.i_prealloc * sizeof(index_record)));
		CHK(!(g->last != 0 || g->allocated != IN.i_prealloc || g->number_base != IN.s_record_count + 1));
		CHK(!(g->node.uncompressed_base != ubase || g->node.compressed_base != cbase));
		CHK(!(I.prealloc != INDEX_GROUP_SIZE));
		CHK(!(S.groups.count != PRE.s.groups.count + 1));
	}
	CHK(!(g->records[g->last].uncompressed_sum != ubase + IN.uncompressed));
	CHK(!(g->records[g->last].unpadded_sum != cbase + IN.unpadded));
	CHK(!(S.record_count != IN.s_record_count + 1 || S.index_list_size != IN.s_ils + add));
	CHK(!(I.record_count != IN.i_rc + 1 || I.index_list_size != IN.i_ils + add));
	CHK(!(I.total_size != IN.i_total + spec_ceil4(IN.unpadded)));
	CHK(!(I.uncompressed_size != IN.i_unc + IN.uncompressed));
	/* everything else is as before */
	CHK(!(I.checks != IN.i_checks || I.streams.rightmost != &S.node || I.streams.count != 1));
	CHK(!(S.stream_padding != IN.s_padding || S.node.compressed_base != IN.s_comp_base || S.node.uncompressed_base != IN.s_unc_base));
	CHK(!(S.stream_flags.version != IN.s_version || (uint32_t)S.stream_flags.check != IN.s_check));
	return true;
}

lzma_ret w_index_append(void)
REQUIRES(pre_append())
ENSURES(post_append(RET))
ASSIGNS(I, S, GB, g_pool, g_pool_used, g_live, g_allocs, g_last_size, g_last_ptr)
{
	return lzma_index_append(IN.i_null ? NULL : &I, NULL, IN.unpadded, IN.uncompressed);
}

void h_index_append(void)
{
	HAVOC(IN, struct in);
	ASSUME(pre_append());
	build_state();
	take_snap();
	lzma_ret r = w_index_append();
	NATIVE_ASSERT(post_append(r), "lzma_index_append postcondition");
	REACH_IF(r == LZMA_OK && S.groups.rightmost == &G->node, append_reuse);
	REACH_IF(r == LZMA_OK && S.groups.rightmost != &G->node && IN.has_group, append_new_group);
	REACH_IF(r == LZMA_OK && !IN.has_group, append_first);
	REACH_IF(r == LZMA_DATA_ERROR, append_data_error);
	REACH_IF(r == LZMA_MEM_ERROR, append_mem_error);
	REACH_IF(r == LZMA_PROG_ERROR, append_prog_error);
}

/* ---------------- stream padding ---------------- */
static bool post_padding(lzma_ret r)
{
	if (IN.i_null || IN.padding > VMAX || (IN.padding & 3) != 0)
		return r == LZMA_PROG_ERROR && unchanged();
	const bool fits = spec_file_size(IN.s_comp_base, IN.has_group ? IN.rec_unp : 0, IN.s_record_count, IN.s_ils, IN.padding) != SPEC_FS_UNKNOWN;
	if (!fits)
		return r == LZMA_DATA_ERROR && unchanged();
	if (r != LZMA_OK || S.stream_padding != IN.padding) return false;
	S.stream_padding = PRE.s.stream_padding; /* everything but the padding is unchanged */
	const bool u = unchanged();
	S.stream_padding = IN.padding;
	return u;
}

lzma_ret w_index_padding(void)
REQUIRES(wf_state())
ENSURES(post_padding(RET))
ASSIGNS(S.stream_padding)
{
	return lzma_index_stream_padding(IN.i_null ? NULL : &I, IN.padding);
}

void h_index_padding(void)
{
	HAVOC(IN, struct in);
	ASSUME(wf_state());
	build_state();
	take_snap();
	lzma_ret r = w_index_padding();
	NATIVE_ASSERT(post_padding(r), "lzma_index_stream_padding postcondition");
	REACH_IF(r == LZMA_OK && IN.padding != IN.s_padding, pad_ok);
	REACH_IF(r == LZMA_DATA_ERROR, pad_data);
	REACH_IF(r == LZMA_PROG_ERROR, pad_prog);
}

/* ---------------- stream flags / checks ---------------- */
void h_index_sflags(void)
{
	HAVOC(IN, struct in);
	ASSUME(wf_state() && IN.s_check <= 15);
	build_state();
	take_snap();
	lzma_stream_flags f; memset(&f, 0, sizeof(f));
	f.version = IN.f_version; f.check = (lzma_check)IN.f_check; f.backward_size = IN.f_backward;
	const uint32_t before = lzma_index_checks(&I);
	ASSERT(before == (IN.i_checks | (IN.s_version != UINT32_MAX ? (UINT32_C(1) << IN.s_check) : 0)), "lzma_index_checks = accumulated mask | last stream's check");
	lzma_ret r = lzma_index_stream_flags(&I, &f);
	const bool bs_ok = IN.f_backward == LZMA_VLI_UNKNOWN || (IN.f_backward >= 4 && IN.f_backward <= BSMAX && (IN.f_backward & 3) == 0);
	if (IN.f_version != 0) ASSERT(r == LZMA_OPTIONS_ERROR && unchanged(), "unsupported version refused, index unchanged");
	else if (IN.f_check > 15 || !bs_ok) ASSERT(r == LZMA_PROG_ERROR && unchanged(), "invalid flags refused, index unchanged");
	else {
		ASSERT(r == LZMA_OK && S.stream_flags.version == 0 && (uint32_t)S.stream_flags.check == IN.f_check
				&& S.stream_flags.backward_size == IN.f_backward, "flags stored in the last stream");
		ASSERT(lzma_index_checks(&I) == (IN.i_checks | (UINT32_C(1) << IN.f_check)), "checks mask reflects the new flags");
		REACH(sflags_ok);
	}
	REACH_IF(r == LZMA_PROG_ERROR, sflags_prog);
}

/* ---------------- dup on a bounded shape ---------------- */
static index_stream S2;
#ifndef DUP_MASK
#	define DUP_MASK (IN.n < 8 ? (1u << IN.n) : 0u)
#endif
#ifndef TINY_N
#define TINY_N 1
#endif
#ifndef DUP_S2_GROUP
#	define DUP_S2_GROUP 1
#endif

static index_group *mkgroup(void)
{
	index_group *g = malloc(sizeof(index_group) + GCAP * sizeof(index_record));
	ASSUME(g != NULL);
	memset(g, 0, sizeof(index_group) + GCAP * sizeof(index_record));
	return g;
}

void h_index_dup(void)
{
	HAVOC(IN, struct in);
	ASSUME(IN.s_check <= 15 && IN.f_check <= 15 && IN.i_ils <= BSMAX);
	memset(&I, 0, sizeof(I)); memset(&S, 0, sizeof(S)); memset(&S2, 0, sizeof(S2));
	index_group *g1 = mkgroup(), *g2 = mkgroup(), *g3 = mkgroup();
	/* stream 1: groups g1 (2 records) -> g2 (1 record); stream 2: optional g3 (1 record).
	 * Built with the real index_tree_append so the tree links are the real ones. */
	I.uncompressed_size = IN.i_unc; I.total_size = IN.i_total; I.record_count = 3 + DUP_S2_GROUP;
	I.index_list_size = IN.i_ils; I.prealloc = INDEX_GROUP_SIZE; I.checks = IN.i_checks;
	S.number = 1; S.record_count = 3; S.index_list_size = IN.s_ils; S.stream_padding = IN.s_padding;
	S.stream_flags.version = 0; S.stream_flags.check = (lzma_check)IN.s_check; S.stream_flags.backward_size = IN.s_backward;
	g1->allocated = 2; g1->last = 1; g1->number_base = 1;
	g1->records[0].uncompressed_sum = IN.r[0][0]; g1->records[0].unpadded_sum = IN.r[0][1];
	g1->records[1].uncompressed_sum = IN.r[1][0]; g1->records[1].unpadded_sum = IN.r[1][1];
	g2->allocated = 1; g2->last = 0; g2->number_base = 3;
	g2->node.uncompressed_base = 0; g2->node.compressed_base = 4; /* increasing, as the tree asserts */
	g2->records[0].uncompressed_sum = IN.r[2][0]; g2->records[0].unpadded_sum = IN.r[2][1];
	index_tree_init(&S.groups);
	index_tree_append(&S.groups, &g1->node);
	index_tree_append(&S.groups, &g2->node);
	ASSUME(IN.s_comp_base > 0);
	S2.node.compressed_base = IN.s_comp_base; S2.node.uncompressed_base = IN.s_unc_base; S2.number = 2; S2.block_number_base = 3;
	S2.record_count = DUP_S2_GROUP; S2.index_list_size = IN.f_backward; S2.stream_padding = IN.padding;
	S2.stream_flags.version = IN.f_version; S2.stream_flags.check = (lzma_check)IN.f_check; S2.stream_flags.backward_size = IN.f_backward;
	index_tree_init(&S2.groups);
#if DUP_S2_GROUP
	g3->allocated = 1; g3->last = 0; g3->number_base = 1;
	g3->records[0].uncompressed_sum = IN.r[3][0]; g3->records[0].unpadded_sum = IN.r[3][1];
	index_tree_append(&S2.groups, &g3->node);
#endif
	index_tree_init(&I.streams);
	index_tree_append(&I.streams, &S.node);
	index_tree_append(&I.streams, &S2.node);
	g_live = 0; g_allocs = 0; g_alloc_fail_mask = DUP_MASK; g_static_pool = false;

	lzma_index *d = lzma_index_dup(&I, NULL);
	if (d == NULL) {
		ASSERT(g_live == 0, "failed lzma_index_dup releases every allocation it made");
#ifndef DUP_NOFAIL
		REACH(dup_failed);
#endif
		return;
	}
	REACH(dup_ok);
#ifdef DUP_LEAK_ONLY
	return;
#endif
	ASSERT(lzma_index_uncompressed_size(d) == lzma_index_uncompressed_size(&I), "dup: uncompressed size");
	ASSERT(lzma_index_total_size(d) == lzma_index_total_size(&I), "dup: total size");
	ASSERT(lzma_index_block_count(d) == lzma_index_block_count(&I), "dup: block count");
	ASSERT(lzma_index_size(d) == lzma_index_size(&I), "dup: index size");
	ASSERT(lzma_index_stream_count(d) == 2, "dup: stream count");
	ASSERT(lzma_index_checks(d) == lzma_index_checks(&I), "dup: lzma_index_checks of the duplicate equals the source's");
	const index_stream *d1 = (const index_stream *)d->streams.leftmost;
	const index_stream *d2 = (const index_stream *)d->streams.rightmost;
	ASSERT(d1 != NULL && d2 != NULL && d1 != d2 && index_tree_next(&d1->node) == (void *)d2 && index_tree_next(&d2->node) == NULL, "dup: two streams in order");
	ASSERT(d1->number == 1 && d2->number == 2 && d2->block_number_base == 3, "dup: stream numbering");
	ASSERT(d1->record_count == 3 && d1->index_list_size == S.index_list_size && d1->stream_padding == S.stream_padding
			&& d1->stream_flags.check == S.stream_flags.check && d1->stream_flags.version == 0 && d1->stream_flags.backward_size == S.stream_flags.backward_size, "dup: stream 1 fields");
	ASSERT(d2->record_count == S2.record_count && d2->index_list_size == S2.index_list_size && d2->stream_padding == S2.stream_padding
			&& d2->stream_flags.check == S2.stream_flags.check && d2->stream_flags.version == S2.stream_flags.version
			&& d2->node.compressed_base == S2.node.compressed_base && d2->node.uncompressed_base == S2.node.uncompressed_base, "dup: stream 2 fields");
	const index_group *dg = (const index_group *)d1->groups.leftmost;
	ASSERT(dg != NULL && d1->groups.count == 1 && dg->last == 2 && dg->allocated == 3 && dg->number_base == 1, "dup: stream 1 records merged into one group");
	for (int k = 0; k < 3; ++k)
		ASSERT(dg->records[k].uncompressed_sum == IN.r[k][0] && dg->records[k].unpadded_sum == IN.r[k][1], "dup: records copied in order");
#if DUP_S2_GROUP
	const index_group *dg2 = (const index_group *)d2->groups.leftmost;
	ASSERT(dg2 != NULL && dg2->last == 0 && dg2->records[0].uncompressed_sum == IN.r[3][0] && dg2->records[0].unpadded_sum == IN.r[3][1], "dup: stream 2 record");
#else
	ASSERT(d2->groups.leftmost == NULL && d2->groups.count == 0, "dup: empty stream stays empty");
#endif

}

/* ---------------- tree on bounded shapes ---------------- */
#define TN 9
static index_tree_node NODES[TN];
void h_index_tree(void)
{
	HAVOC(IN, struct in);
	ASSUME(IN.n >= 1 && IN.n <= TN);
	index_tree t;
	index_tree_init(&t);
	for (uint32_t k = 0; k < TN; ++k) {
		if (k >= IN.n) break;
		ASSUME(k == 0 ? IN.bases[0] == 0 : IN.bases[k] >= IN.bases[k - 1]);
		ASSUME(IN.bases[k] <= VMAX);
		NODES[k].uncompressed_base = IN.bases[k];
		NODES[k].compressed_base = k * 8;
		index_tree_append(&t, &NODES[k]);
	}
	REACH_IF(IN.n == TN, tree_full);
	ASSERT(t.count == IN.n && t.leftmost == &NODES[0] && t.rightmost == &NODES[IN.n - 1] && t.root != NULL && t.root->parent == NULL, "tree ends");
	const index_tree_node *p = t.leftmost;
	for (uint32_t k = 0; k < TN; ++k) {
		if (k >= IN.n) break;
		ASSERT(p == &NODES[k], "in-order traversal visits nodes in insertion order");
		ASSERT(p->left == NULL || p->left->parent == p, "left child's parent link");
		ASSERT(p->right == NULL || p->right->parent == p, "right child's parent link");
		p = index_tree_next(p);
	}
	ASSERT(p == NULL, "traversal ends after the last node");
	/* locate: last node with base <= target */
	ASSUME(IN.target <= VMAX);
	const index_tree_node *loc = index_tree_locate(&t, IN.target);
	const index_tree_node *want = NULL;
	for (uint32_t k = 0; k < TN; ++k) {
		if (k >= IN.n) break;
		if (NODES[k].uncompressed_base <= IN.target) want = &NODES[k];
	}
	ASSERT(loc == want, "index_tree_locate returns the last node whose base is <= target");
}


/* ---------------- bounded histories through the public API, against a list-of-records model ---------------- */
#ifdef HIST_ITER
#define HN1 HIST_ITER
#define HN HIST_ITER
#else
#define HN1 3
#define HN 5
#endif
void h_index_history(void)
{
	HAVOC(IN, struct in);
	for (int k = 0; k < HN; ++k) ASSUME(IN.hu[k] >= 5 && IN.hu[k] <= (UINT64_C(1) << 32) && IN.hc[k] <= (UINT64_C(1) << 32));
	ASSUME(IN.hpad <= (UINT64_C(1) << 32) && IN.hpad % 4 == 0);
	g_live = 0; g_allocs = 0; g_alloc_fail_mask = 0; g_static_pool = false;
	lzma_index *a = lzma_index_init(NULL);
	ASSUME(a != NULL);
#ifdef HIST_CAT
	lzma_index *b = lzma_index_init(NULL);
	ASSUME(b != NULL);
#endif
	for (int k = 0; k < HN1; ++k) {
		lzma_index_prealloc(a, 2);
		ASSERT(lzma_index_append(a, NULL, IN.hu[k], IN.hc[k]) == LZMA_OK, "history: append to A succeeds");
	}
	/* model */
	uint64_t m_unc = 0, m_tot = 0, s_tot[2] = { 0, 0 }, s_unc[2] = { 0, 0 }, s_list[2] = { 0, 0 };
	for (int k = 0; k < HN; ++k) {
		const int st = k >= HN1;
		m_unc += IN.hc[k]; m_tot += spec_ceil4(IN.hu[k]);
		s_tot[st] += spec_ceil4(IN.hu[k]); s_unc[st] += IN.hc[k];
		s_list[st] += spec_vli_size(IN.hu[k]) + spec_vli_size(IN.hc[k]);
	}
	const uint64_t s_size[2] = { 24 + s_tot[0] + spec_index_size(HN1, s_list[0]), 24 + s_tot[1] + spec_index_size(HN - HN1, s_list[1]) };
#ifdef HIST_CAT
	ASSERT(lzma_index_stream_padding(a, IN.hpad) == LZMA_OK, "history: padding accepted");
	for (int k = HN1; k < HN; ++k) {
		lzma_index_prealloc(b, 2);
		ASSERT(lzma_index_append(b, NULL, IN.hu[k], IN.hc[k]) == LZMA_OK, "history: append to B succeeds");
	}
	const index_stream *sb = (const index_stream *)b->streams.rightmost;
	ASSERT(lzma_index_cat(a, b, NULL) == LZMA_OK, "history: cat succeeds");
	ASSERT(lzma_index_block_count(a) == 5 && lzma_index_stream_count(a) == 2, "history: 5 Blocks in 2 Streams");
	ASSERT(lzma_index_uncompressed_size(a) == m_unc, "history: uncompressed size is the sum over the records");
	ASSERT(lzma_index_total_size(a) == m_tot, "history: total size is the sum of the padded Block sizes");
	ASSERT(lzma_index_file_size(a) == s_size[0] + IN.hpad + s_size[1], "history: file size = streams + padding");
#ifdef BIS_A
	return;
#endif
	ASSERT(lzma_index_size(a) == spec_index_size(5, s_list[0] + s_list[1]), "history: size of the combined Index field");
#ifdef BIS_B
	return;
#endif
	const index_stream *s1 = (const index_stream *)a->streams.leftmost, *s2 = (const index_stream *)a->streams.rightmost;
	ASSERT(s1 != NULL && s2 == sb && s1 != s2 && a->streams.count == 2 && a->streams.root != NULL, "history: B's Stream was moved behind A's");
	ASSERT(s2->node.compressed_base == s_size[0] + IN.hpad && s2->node.uncompressed_base == s_unc[0] && s2->number == 2 && s2->block_number_base == 3, "history: moved Stream rebased after Stream 1 and its padding");
	ASSERT(s1->node.compressed_base == 0 && s1->node.uncompressed_base == 0 && s1->number == 1 && s1->block_number_base == 0 && s1->stream_padding == IN.hpad && s1->record_count == 3 && s2->record_count == 2, "history: Stream 1 untouched");
#ifndef HIST_CAT_NOGROUPS
	const index_group *g1 = (const index_group *)s1->groups.leftmost, *g2 = (const index_group *)s1->groups.rightmost, *g3 = (const index_group *)s2->groups.leftmost;
	ASSERT(g1 != NULL && g2 != NULL && g3 != NULL && g1 != g2 && g1->last == 1 && g2->last == 0 && g2->allocated == 1 && g3->last == 1 && s2->groups.count == 1 && s1->groups.count == 2, "history: group shapes (Stream 1's last group shrunk to its used record)");
	ASSERT(g1->records[0].unpadded_sum == IN.hu[0] && g1->records[0].uncompressed_sum == IN.hc[0]
			&& g1->records[1].unpadded_sum == spec_ceil4(IN.hu[0]) + IN.hu[1] && g1->records[1].uncompressed_sum == IN.hc[0] + IN.hc[1]
			&& g2->records[0].unpadded_sum == spec_ceil4(IN.hu[0]) + spec_ceil4(IN.hu[1]) + IN.hu[2] && g2->records[0].uncompressed_sum == s_unc[0]
			&& g2->node.uncompressed_base == IN.hc[0] + IN.hc[1] && g2->node.compressed_base == spec_ceil4(IN.hu[0]) + spec_ceil4(IN.hu[1]) && g2->number_base == 3, "history: Stream 1 records are the cumulative sums of the appended sizes");
	ASSERT(g3->records[0].unpadded_sum == IN.hu[3] && g3->records[0].uncompressed_sum == IN.hc[3]
			&& g3->records[1].unpadded_sum == spec_ceil4(IN.hu[3]) + IN.hu[4] && g3->records[1].uncompressed_sum == s_unc[1] && g3->number_base == 1, "history: moved Stream keeps its records");
#endif
	REACH(hist_cat);
	ASSERT(g_live == 6, "history: exactly the index, two Streams and three groups stay allocated (B's shell and the replaced group were freed, nothing else)");
#else
	ASSERT(lzma_index_block_count(a) == HN && lzma_index_uncompressed_size(a) == m_unc && lzma_index_total_size(a) == m_tot, "history: totals");
	/* iteration visits every Block once, in order */
	lzma_index_iter it;
	lzma_index_iter_init(&it, a);
	uint64_t off_c = 0, off_u = 0;  /* offsets inside the stream */
	for (int k = 0; k < HN; ++k) {
		ASSERT(!lzma_index_iter_next(&it, LZMA_INDEX_ITER_BLOCK), "history: iterator finds the next Block");
		ASSERT(it.stream.number == 1 && it.stream.block_count == HN
				&& it.stream.compressed_offset == 0 && it.stream.uncompressed_offset == 0
				&& it.stream.compressed_size == s_size[0] && it.stream.uncompressed_size == s_unc[0]
				&& it.stream.padding == 0, "history: Stream info equals the model");
		ASSERT(it.block.number_in_file == (lzma_vli)(k + 1) && it.block.number_in_stream == (lzma_vli)(k + 1), "history: Block numbering");
		ASSERT(it.block.unpadded_size == IN.hu[k] && it.block.uncompressed_size == IN.hc[k] && it.block.total_size == spec_ceil4(IN.hu[k]), "history: Block sizes equal the appended record");
		ASSERT(it.block.compressed_stream_offset == 12 + off_c && it.block.uncompressed_stream_offset == off_u
				&& it.block.compressed_file_offset == 12 + off_c && it.block.uncompressed_file_offset == off_u, "history: Block offsets are the sums of the records before it");
		off_c += spec_ceil4(IN.hu[k]); off_u += IN.hc[k];
	}
	ASSERT(lzma_index_iter_next(&it, LZMA_INDEX_ITER_BLOCK), "history: after the last Block the iterator reports the end");
	REACH(hist_iterated);

	/* random access */
	lzma_index_iter loc;
	lzma_index_iter_init(&loc, a);
	const bool miss = lzma_index_iter_locate(&loc, IN.htarget);
	ASSERT(miss == (IN.htarget >= m_unc), "history: locate fails exactly beyond the end");
	if (!miss) {
		ASSERT(loc.block.uncompressed_size > 0 && loc.block.uncompressed_file_offset <= IN.htarget
				&& IN.htarget - loc.block.uncompressed_file_offset < loc.block.uncompressed_size, "history: located Block is non-empty and contains the offset");
		uint64_t acc = 0; int want = -1;
		for (int k = 0; k < HN; ++k) { if (want < 0 && IN.htarget < acc + IN.hc[k]) want = k; acc += IN.hc[k]; }
		ASSERT(want >= 0 && loc.block.number_in_file == (lzma_vli)(want + 1) && loc.block.unpadded_size == IN.hu[want], "history: located Block is the model's Block");
		REACH(hist_located);
		REACH_IF(want >= 2, hist_located_second_group);
	}
#endif
}
