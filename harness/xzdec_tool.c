/* xzdec / lzmadec decoding loop (src/xzdec/xzdec.c): C18, C17. */

/*@obligation
id: C18.xzdec
props: C18
entry: h_xzdec
flags: xz
kind: bounded
bound: histories of at most 4 lzma_code() calls per file (every call, fread and fwrite with arbitrary results)
defs: -DXD_MAXCALLS=4
unwind: 10
fn: uncompress
sentinels: 4
expect: 15
replay: none
timeout: 1200
desc: xzdec's uncompress() with liblzma and stdio replaced by nondeterministic stubs: it RETURNS (the file counts as decoded, exit status stays 0) only if the decoder was initialised, the last lzma_code call returned LZMA_STREAM_END, no read error occurred and every byte lzma_code produced went through a complete fwrite to stdout; it calls exit(EXIT_FAILURE) in every other case -- failed initialisation, read error, short write, any other return code -- and never exit with another status; when the decoder reports an error, everything it produced before the error has been handed to fwrite first (what reaches stdout is everything decodable before the error); fwrite is always given the output buffer from its start with exactly the pending amount; display_errors being off never changes the outcome
assume: lzma_stream_decoder/lzma_code/fread/ferror/feof/fwrite/exit are stubs; the stub of lzma_code honours the documented contract of LZMA_CONCATENATED (LZMA_STREAM_END only with LZMA_FINISH and all input consumed) on which xzdec's own assert()s rely
*/
/*@obligation
id: C18.lzmadec
props: C18
entry: h_xzdec
flags: xz
kind: bounded
bound: histories of at most 4 lzma_code() calls per file
defs: -DXD_MAXCALLS=4 -DLZMADEC
unwind: 10
fn: uncompress
sentinels: 4
expect: 15
replay: none
timeout: 1200
desc: the same for lzmadec (LZMA_Alone, no LZMA_CONCATENATED), plus: after LZMA_STREAM_END it returns only if no input is left in the buffer AND a further fread finds end-of-file -- trailing bytes after the .lzma stream make it 'File is corrupt' with exit(EXIT_FAILURE)
assume: as for C18.xzdec (lzma_alone_decoder instead of lzma_stream_decoder)
*/

#include "verif.h"
#define main xzdec_main
#include "xzdec/xzdec.c"
#undef main

#ifndef XD_MAXCALLS
#define XD_MAXCALLS 4
#endif
struct in {
	uint32_t init_ret; uint8_t display;
	uint32_t ret[6]; size_t use_in[6], make_out[6];
	size_t rd[8]; uint8_t rd_err[8], rd_eof[8]; size_t wr[8];
};
static struct in IN VERIF_IN_INIT;
static struct {
	unsigned code_calls, reads, writes, inits;
	uint32_t last_ret; bool have_last;
	uint64_t produced, written;
	bool read_error, eof, short_write, write_bad_args, exited; int exit_status;
	const uint8_t *out0;
} G;
static lzma_stream S = LZMA_STREAM_INIT;
static FILE *const FIN = (FILE *)&G;   /* only its address is used */

static lzma_ret init_stub(lzma_stream *s) { ++G.inits; ASSERT(s == &S, "initialising the given stream"); return (lzma_ret)IN.init_ret; }
lzma_ret lzma_stream_decoder(lzma_stream *s, uint64_t m, uint32_t f) { ASSERT(m == UINT64_MAX && f == LZMA_CONCATENATED, "xzdec: no memory limit, concatenated streams"); return init_stub(s); }
lzma_ret lzma_alone_decoder(lzma_stream *s, uint64_t m) { ASSERT(m == UINT64_MAX, "lzmadec: no memory limit"); return init_stub(s); }

lzma_ret lzma_code(lzma_stream *s, lzma_action action)
{
	const unsigned k = G.code_calls++;
	__CPROVER_assume(k < XD_MAXCALLS);
	if (G.out0 == NULL) G.out0 = s->next_out;     /* start of the (stack) output buffer */
	const size_t ui = IN.use_in[k], mo = IN.make_out[k];
	__CPROVER_assume(ui <= s->avail_in && mo <= s->avail_out);
	s->avail_in -= ui; if (ui > 0) s->next_in += ui;
	s->avail_out -= mo; if (mo > 0) s->next_out += mo;
	G.produced += mo;
#ifndef LZMADEC
	/* liblzma contract with LZMA_CONCATENATED (api/lzma/container.h): LZMA_STREAM_END only with LZMA_FINISH and all input used */
	__CPROVER_assume(IN.ret[k] != LZMA_STREAM_END || (action == LZMA_FINISH && s->avail_in == 0));
#else
	(void)action;
#endif
	G.last_ret = IN.ret[k]; G.have_last = true;
	return (lzma_ret)IN.ret[k];
}

size_t fread(void *restrict p, size_t sz, size_t n, FILE *restrict f)
{
	(void)p;
	const unsigned k = G.reads++;
	__CPROVER_assume(k < 8);
	ASSERT(f == FIN && sz == 1 && n <= BUFSIZ, "fread from the input file into the input buffer");
	if (G.eof) return 0;                                   /* the end-of-file indicator is sticky */
	if (IN.rd_err[k]) { G.read_error = true; return 0; }
	size_t got = IN.rd[k];
	__CPROVER_assume(got <= n);
	if (got < n) { __CPROVER_assume(IN.rd_eof[k]); }      /* a short count without error means end of file */
	if (IN.rd_eof[k]) G.eof = true;
	return got;
}
int ferror(FILE *f) { (void)f; return G.read_error; }
int feof(FILE *f) { (void)f; return G.eof; }
size_t fwrite(const void *restrict p, size_t sz, size_t n, FILE *restrict f)
{
	const unsigned k = G.writes++;
	__CPROVER_assume(k < 8);
	if (f != stdout || sz != 1 || (const uint8_t *)p != G.out0 || n != BUFSIZ - S.avail_out) G.write_bad_args = true;
	size_t w = IN.wr[k];
	__CPROVER_assume(w <= n);
	if (w != n) G.short_write = true; else G.written += n;
	return w;
}
void exit(int status)
{
	/* every way out other than returning */
	ASSERT(status == EXIT_FAILURE, "uncompress() only ever exits with EXIT_FAILURE");
	const bool init_failed = IN.init_ret != LZMA_OK;
	const bool decode_error = G.have_last && G.last_ret != LZMA_OK
#ifndef LZMADEC
		&& G.last_ret != LZMA_STREAM_END
#endif
		;
	ASSERT(init_failed || G.read_error || G.short_write || decode_error, "exit(EXIT_FAILURE) only for: failed initialisation, read error, short write, decoder error (lzmadec: or trailing garbage)");
	if (decode_error && !G.short_write && !G.read_error && !init_failed)
		{ ASSERT(G.written == G.produced, "a decoder error is reported only after everything decoded before it was written"); REACH(xd_error_after_flush); }
	REACH_IF(G.short_write, xd_short_write);
	G.exited = true;
	__CPROVER_assume(0);
}
char *strerror(int e) { (void)e; static char m[] = "e"; return m; }
int fprintf(FILE *restrict f, const char *restrict fmt, ...) { (void)f; (void)fmt; return 0; }
int vfprintf(FILE *restrict f, const char *restrict fmt, va_list ap) { (void)f; (void)fmt; (void)ap; return 0; }
const char *tuklib_mask_nonprint(const char *s) { return s; }

void h_xzdec(void)
{
	HAVOC(IN, struct in);
	for (int k = 0; k < 6; ++k) ASSUME(IN.ret[k] <= LZMA_RET_INTERNAL8);
	for (int k = 0; k < 8; ++k) ASSUME(IN.rd_err[k] <= 1 && IN.rd_eof[k] <= 1);
	ASSUME(IN.init_ret <= LZMA_RET_INTERNAL8 && IN.display <= 1);
	memset(&G, 0, sizeof(G));
	display_errors = IN.display;
	static char NAME[] = "f";
	uncompress(&S, FIN, NAME);
	/* returned: the file counts as successfully decoded */
	ASSERT(IN.init_ret == LZMA_OK && G.inits == 1, "returns only after a successful initialisation");
	ASSERT(G.have_last && G.last_ret == LZMA_STREAM_END, "returns only after LZMA_STREAM_END");
	ASSERT(!G.read_error && !G.short_write, "returns only if no read failed and every fwrite was complete");
	ASSERT(G.written == G.produced, "returns only after every produced byte was written to stdout");
	ASSERT(!G.write_bad_args, "fwrite is given the output buffer from its start with exactly the pending amount");
	ASSERT(S.avail_in == 0 && G.eof, "returns only at the end of the input (lzmadec: trailing bytes are an error)");
	REACH(xd_success);
	REACH_IF(G.writes >= 2, xd_success_two_writes);
}
