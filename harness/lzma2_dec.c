/* LZMA2 chunk-header decoder and LZMA/LZMA2 property bytes (C03, C05, C06, C04, C01, C02). */

/*@obligation
id: C03.lzma2.step
props: C03 C05 C06 C04
entry: h_lzma2_step
extra_src: liblzma/lzma/lzma_decoder.c
unwind: 4
fn: lzma2_decode
sentinels: 8
expect: 30
desc: lzma2_decode fed exactly ONE byte from ANY coder state: new state and return code equal the LZMA2 chunk-header transition table written from the format (0x00 end; 0x01/0x02 stored chunk with/without dictionary reset; 0x03-0x7F invalid; 0x80-0xFF LZMA chunk with reset level bits 5-6; first chunk must reset the dictionary; new properties required after a dictionary reset; sizes are 16-bit big-endian minus one); exactly that byte is consumed; STREAM_END only for control 0x00 at a chunk boundary (a truncated stream never ends); property byte accepted iff < 225 and lc+lp <= 4
assume: the LZMA symbol decoder behind coder->lzma.{code,reset,set_uncompressed} is a recording stub (lzma_decode itself is not under contract)
*/
/*@obligation
id: C03.lzma2.payload
props: C03 C05 C04
entry: h_lzma2_payload
extra_src: liblzma/lzma/lzma_decoder.c
unwind: 4
fn: lzma2_decode dict_write
sentinels: 5
expect: 30
desc: lzma2_decode in SEQ_LZMA/SEQ_COPY: never lets the chunk consume more than its declared compressed size (DATA_ERROR), chunk ends only when the symbol decoder reports end AND the declared compressed size is used up exactly, stored chunks copy min(input, remaining, dictionary room) bytes, return to SEQ_CONTROL exactly at the chunk end
assume: coder->lzma.code is a stub that consumes any number of available bytes and returns any code
*/
/*@obligation
id: C01.props.lzma2
props: C01 C02 C03
entry: h_lzma2_props
extra_src: liblzma/lzma/lzma2_encoder.c liblzma/lzma/fastpos_table.c liblzma/lzma/lzma_decoder.c
allow_nobody: lzma_lz_encoder_init lzma_lzma_encoder_create lzma_lzma_encode lzma_lzma_encoder_reset lzma_lz_encoder_memusage lzma_lzma_encoder_memusage lzma_mf_is_supported
unwind: 4
fn: lzma_lzma2_props_encode lzma_lzma2_props_decode
sentinels: 3
expect: 10
desc: for EVERY dict_size: the byte written by lzma_lzma2_props_encode is <= 40 and lzma_lzma2_props_decode of it yields the smallest representable dictionary size (2^n, 2^n+2^(n-1), or 4 GiB-1) that is >= max(dict_size, 4096) -- the header never declares less than the encoder uses; the decoder accepts exactly bytes 0..40 and rejects other sizes
*/
/*@obligation
id: C01.props.lclppb
props: C01 C02 C03
entry: h_lclppb
extra_src: liblzma/lzma/lzma_encoder.c liblzma/lzma/lzma_decoder.c
unwind: 4
fn: lzma_lzma_lclppb_decode lzma_lzma_lclppb_encode
sentinels: 2
expect: 5
desc: lzma_lzma_lclppb_decode accepts exactly bytes < 225 with lc+lp <= 4 and yields pb=b/45, lp=(b%45)/9, lc=b%9; lzma_lzma_lclppb_encode is its inverse on all valid (lc,lp,pb) and rejects the rest
*/

#include "verif.h"
#include "liblzma/common/common.h"

static union { uint64_t a; uint8_t raw[256]; } OPTPOOL;
static bool g_alloc_fail;
void *lzma_alloc(size_t size, const lzma_allocator *allocator) { (void)allocator; return (g_alloc_fail || size > sizeof(OPTPOOL)) ? NULL : &OPTPOOL; }
void *lzma_alloc_zero(size_t size, const lzma_allocator *allocator) { return lzma_alloc(size, allocator); }
void lzma_free(void *p, const lzma_allocator *allocator) { (void)p; (void)allocator; }
size_t lzma_bufcpy(const uint8_t *restrict in, size_t *restrict in_pos, size_t in_size,
		uint8_t *restrict out, size_t *restrict out_pos, size_t out_size)
{
	/* same as common.c (which is not included here because of the allocator stubs) */
	const size_t in_avail = in_size - *in_pos, out_avail = out_size - *out_pos;
	const size_t n = in_avail < out_avail ? in_avail : out_avail;
	if (n > 0) memcpy(out + *out_pos, in + *in_pos, n);
	*in_pos += n; *out_pos += n;
	return n;
}

#include "liblzma/lzma/lzma2_decoder.c"
/* lzma_decoder.c, lzma_encoder.c, lzma2_encoder.c, fastpos_table.c are separate translation units (extra_src) */

/* only the two small functions of the encoder files are needed */
extern lzma_ret lzma_lzma2_props_encode(const void *options, uint8_t *out);
extern bool lzma_lzma_lclppb_encode(const lzma_options_lzma *options, uint8_t *byte);

struct in {
	uint32_t seq, next_seq;
	size_t unc, comp;
	uint8_t need_props, need_dict_reset;
	uint8_t byte;
	uint32_t code_ret; size_t code_used;
	size_t in_size, dict_room;
	uint32_t dict_size;
	uint8_t lc, lp, pb;
	uint8_t props_size;
};
static struct in IN VERIF_IN_INIT;

static struct { unsigned resets, setunc, codes; lzma_vli unc; bool eopm; uint32_t lc, lp, pb; } GL;
static void stub_reset(void *c, const void *opt) { (void)c; const lzma_options_lzma *o = opt; ++GL.resets; GL.lc = o->lc; GL.lp = o->lp; GL.pb = o->pb; }
static void stub_setunc(void *c, lzma_vli u, bool allow_eopm) { (void)c; ++GL.setunc; GL.unc = u; GL.eopm = allow_eopm; }
static lzma_ret stub_code(void *c, lzma_dict *restrict d, const uint8_t *restrict in, size_t *restrict in_pos, size_t in_size)
{
	(void)c; (void)d; (void)in;
	++GL.codes;
	size_t n = IN.code_used; if (n > in_size - *in_pos) n = in_size - *in_pos;
	*in_pos += n;
	return (lzma_ret)IN.code_ret;
}

static lzma_lzma2_coder C;
static uint8_t INB[8], DBUF[32];
static lzma_dict D;

static void setup(void)
{
	memset(&C, 0, sizeof(C)); memset(&GL, 0, sizeof(GL));
	C.sequence = IN.seq; C.next_sequence = IN.next_seq;
	C.uncompressed_size = IN.unc; C.compressed_size = IN.comp;
	C.need_properties = IN.need_props; C.need_dictionary_reset = IN.need_dict_reset;
	C.lzma.reset = &stub_reset; C.lzma.set_uncompressed = &stub_setunc; C.lzma.code = &stub_code;
	C.options.lc = 3; C.options.lp = 0; C.options.pb = 2;
	memset(&D, 0, sizeof(D));
	D.buf = DBUF; D.pos = 8; D.limit = 8 + (IN.dict_room <= 16 ? IN.dict_room : 16); D.size = 32; D.full = 8;
}

/* ---- one header byte ---- */
void h_lzma2_step(void)
{
	HAVOC(IN, struct in);
	ASSUME(IN.need_props <= 1 && IN.need_dict_reset <= 1 && IN.code_ret <= 12);
	ASSUME(IN.seq <= SEQ_PROPERTIES && IN.next_seq <= SEQ_COPY);
	/* reachable-state invariant: a pending dictionary reset implies properties are needed too */
	ASSUME(!IN.need_dict_reset || IN.need_props);
	ASSUME(IN.unc <= (1u << 21) && IN.comp <= (1u << 16));
	setup();
	INB[0] = IN.byte;
	size_t in_pos = 0;
	const lzma_ret r = lzma2_decode(&C, &D, INB, &in_pos, 1);
	const uint8_t b = IN.byte;
	ASSERT(in_pos == 1, "exactly the one header byte is consumed");
	switch (IN.seq) {
	case SEQ_CONTROL: {
		const unsigned level = (b >> 5) & 3; /* for b >= 0x80 */
		const bool wants_dict_reset = b == 0x01 || b >= 0xE0;
		if (b == 0x00) { ASSERT(r == LZMA_STREAM_END, "control 0x00 ends the LZMA2 stream"); REACH(ctl_end); break; }
		bool err = false;
		if (b >= 0x03 && b <= 0x7F) err = true;                        /* reserved control values */
		if (!wants_dict_reset && IN.need_dict_reset) err = true;        /* first chunk (or after ...) must reset the dictionary */
		if (b >= 0x80 && level < 2 && (IN.need_props || wants_dict_reset) && !wants_dict_reset) err = true; /* props needed but not supplied */
		if (err) { ASSERT(r == LZMA_DATA_ERROR, "invalid control byte for this state is rejected"); REACH(ctl_error); break; }
		ASSERT(r == LZMA_OK, "valid control byte accepted");
		if (b >= 0x80) {
			ASSERT(C.sequence == SEQ_UNCOMPRESSED_1 && C.uncompressed_size == ((size_t)(b & 0x1F) << 16), "LZMA chunk: high 5 bits of the uncompressed size");
			ASSERT(C.next_sequence == (level >= 2 ? SEQ_PROPERTIES : SEQ_LZMA), "properties byte follows iff reset level >= 2");
			ASSERT(GL.resets == (level == 1 ? 1u : 0u), "state reset without new properties happens now, with the current properties");
			if (level == 1) ASSERT(GL.lc == 3 && GL.lp == 0 && GL.pb == 2, "state reset uses the current lc/lp/pb");
			if (level >= 2) ASSERT(!C.need_properties, "new properties satisfy the need"); 
			REACH_IF(level == 1, ctl_state_reset);
			REACH_IF(level == 3, ctl_full_reset);
		} else {
			ASSERT(C.sequence == SEQ_COMPRESSED_0 && C.next_sequence == SEQ_COPY, "stored chunk: size bytes then copy");
			if (b == 0x01) ASSERT(C.need_properties, "a dictionary reset by a stored chunk requires new properties before the next LZMA chunk");
			REACH(ctl_stored);
		}
		ASSERT(D.need_reset == wants_dict_reset, "dictionary reset requested iff control is 0x01 or >= 0xE0");
		ASSERT(!C.need_dictionary_reset, "a pending dictionary reset is consumed");
		break;
	}
	case SEQ_UNCOMPRESSED_1:
		ASSERT(r == LZMA_OK && C.sequence == SEQ_UNCOMPRESSED_2 && C.uncompressed_size == IN.unc + ((size_t)b << 8), "uncompressed size, middle byte");
		break;
	case SEQ_UNCOMPRESSED_2:
		ASSERT(r == LZMA_OK && C.sequence == SEQ_COMPRESSED_0 && C.uncompressed_size == IN.unc + b + 1, "uncompressed size, low byte, stored minus one");
		ASSERT(GL.setunc == 1 && GL.unc == IN.unc + b + 1 && !GL.eopm, "the symbol decoder is told the exact chunk size; end marker not allowed in LZMA2");
		REACH(unc_done);
		break;
	case SEQ_COMPRESSED_0:
		ASSERT(r == LZMA_OK && C.sequence == SEQ_COMPRESSED_1 && C.compressed_size == ((size_t)b << 8), "compressed size, high byte");
		break;
	case SEQ_COMPRESSED_1:
		ASSERT(C.compressed_size == IN.comp + b + 1 || IN.next_seq == SEQ_LZMA, "compressed size, low byte, stored minus one");
		if (IN.next_seq != SEQ_LZMA) {
			ASSERT(r == LZMA_OK && C.sequence == (enum sequence)IN.next_seq && GL.codes == 0, "continue with properties / copy");
		} else {
			/* SEQ_LZMA runs even without input: the symbol decoder is called once with no input */
			ASSERT(GL.codes == 1, "LZMA chunk body starts");
			REACH(comp_to_lzma);
		}
		break;
	case SEQ_PROPERTIES: {
		const bool ok = b < 225 && (b % 9) + ((b % 45) / 9) <= 4;
		if (!ok) { ASSERT(r == LZMA_DATA_ERROR && GL.resets == 0, "invalid lc/lp/pb byte rejected"); REACH(props_bad); break; }
		ASSERT(GL.resets == 1 && GL.pb == b / 45u && GL.lp == (b % 45u) / 9u && GL.lc == b % 9u, "symbol decoder reset with the decoded lc/lp/pb");
		ASSERT(GL.codes == 1, "chunk body follows");
		break;
	}
	default: break;
	}
	if (r == LZMA_STREAM_END && IN.seq != SEQ_CONTROL)
		ASSERT(IN.seq == SEQ_COMPRESSED_1 || IN.seq == SEQ_PROPERTIES, "STREAM_END outside SEQ_CONTROL can only be the symbol decoder's (checked in C03.lzma2.payload)");
}

/* ---- chunk payload ---- */
void h_lzma2_payload(void)
{
	HAVOC(IN, struct in);
	ASSUME(IN.need_props <= 1 && IN.need_dict_reset <= 1 && IN.code_ret <= 12);
	ASSUME(IN.seq == SEQ_LZMA || IN.seq == SEQ_COPY);
	ASSUME(IN.in_size <= sizeof(INB) && IN.comp <= (1u << 16) && IN.comp >= 1 && IN.unc <= (1u << 21));
	setup();
	size_t in_pos = 0;
	const lzma_ret r = lzma2_decode(&C, &D, INB, &in_pos, IN.in_size);
	if (IN.seq == SEQ_LZMA) {
		size_t used = IN.code_used; if (used > IN.in_size) used = IN.in_size;
		/* the first pass decides; after a clean chunk end the loop may go on with the next control byte */
		if (used > IN.comp) { ASSERT(r == LZMA_DATA_ERROR, "chunk used more input than its declared compressed size"); REACH(pay_overrun); }
		else if (IN.code_ret != LZMA_STREAM_END) { ASSERT(r == (lzma_ret)IN.code_ret && C.compressed_size == IN.comp - used && C.sequence == SEQ_LZMA && in_pos == used, "compressed size accounting while the chunk continues"); REACH(pay_continue); }
		else if (used != IN.comp) { ASSERT(r == LZMA_DATA_ERROR, "symbol decoder ended the chunk before the declared compressed size was used"); REACH(pay_short); }
		else { ASSERT(r != LZMA_BUF_ERROR, "chunk ended cleanly"); REACH(pay_end); }
	} else {
		size_t n = IN.in_size; if (n > IN.comp) n = IN.comp; if (n > D.limit - 8) n = D.limit - 8;
		if (n < IN.comp) {
			ASSERT(r == LZMA_OK && C.sequence == SEQ_COPY && C.compressed_size == IN.comp - n && in_pos == n && D.pos == 8 + n, "stored chunk: copies min(input, remaining, room)");
			REACH(copy_partial);
		} else {
			ASSERT(D.pos == 8 + n || r != LZMA_OK, "stored chunk complete");
		}
	}
}

/* ---- LZMA2 dictionary size byte ---- */
static uint64_t spec_lzma2_dict(uint8_t p) { return p == 40 ? UINT32_MAX : (uint64_t)(2 | (p & 1)) << (p / 2 + 11); }

void h_lzma2_props(void)
{
	HAVOC(IN, struct in);
	lzma_options_lzma o; memset(&o, 0, sizeof(o)); o.dict_size = IN.dict_size;
	uint8_t p = 0xFF;
	ASSERT(lzma_lzma2_props_encode(&o, &p) == LZMA_OK, "props encode succeeds for every dictionary size");
	ASSERT(p <= 40, "encoded byte in range");
	const uint64_t want = IN.dict_size < 4096 ? 4096 : IN.dict_size;
	ASSERT(spec_lzma2_dict(p) >= want, "declared dictionary size is never smaller than the one the encoder uses");
	if (p > 0) ASSERT(spec_lzma2_dict((uint8_t)(p - 1)) < want, "... and is the smallest representable size");
	REACH_IF(p == 40, props40);
	REACH_IF(p == 0, props0);
	/* decoder side */
	void *opts = NULL; g_alloc_fail = false;
	const uint8_t pb[2] = { IN.byte, 0 };
	const lzma_ret r = lzma_lzma2_props_decode(&opts, NULL, pb, IN.props_size);
	if (IN.props_size != 1 || IN.byte > 40) ASSERT(r == LZMA_OPTIONS_ERROR && opts == NULL, "props decode rejects wrong size / byte > 40");
	else {
		ASSERT(r == LZMA_OK && opts != NULL, "props decode accepts 0..40");
		const lzma_options_lzma *d = opts;
		ASSERT(d->dict_size == spec_lzma2_dict(IN.byte) && d->preset_dict == NULL && d->preset_dict_size == 0, "decoded dictionary size per format: (2 | (b&1)) << (b/2 + 11), 40 = 4 GiB - 1");
		REACH(props_dec_ok);
	}
}

void h_lclppb(void)
{
	HAVOC(IN, struct in);
	lzma_options_lzma o; memset(&o, 0, sizeof(o));
	const uint8_t b = IN.byte;
	const bool bad = lzma_lzma_lclppb_decode(&o, b);
	const bool want_ok = b < 225 && (b % 9) + ((b % 45) / 9) <= 4;
	ASSERT(bad == !want_ok, "lclppb_decode accepts exactly b < 225 with lc+lp <= 4");
	if (!bad) {
		ASSERT(o.pb == b / 45u && o.lp == (b % 45u) / 9u && o.lc == b % 9u, "lc/lp/pb per lzma-file-format.txt");
		uint8_t e = 0xFF;
		ASSERT(!lzma_lzma_lclppb_encode(&o, &e) && e == b, "encode is the inverse of decode");
		REACH(lclppb_ok);
	}
	lzma_options_lzma q; memset(&q, 0, sizeof(q)); q.lc = IN.lc; q.lp = IN.lp; q.pb = IN.pb;
	uint8_t e2 = 0;
	const bool ebad = lzma_lzma_lclppb_encode(&q, &e2);
	const bool valid = IN.lc <= 4 && IN.lp <= 4 && IN.lc + IN.lp <= 4 && IN.pb <= 4;
	ASSERT(ebad == !valid, "lclppb_encode rejects exactly the invalid triples");
	if (!ebad) {
		lzma_options_lzma t; memset(&t, 0, sizeof(t));
		ASSERT(!lzma_lzma_lclppb_decode(&t, e2) && t.lc == IN.lc && t.lp == IN.lp && t.pb == IN.pb, "decode(encode(lc,lp,pb)) == (lc,lp,pb)");
		REACH(lclppb_rt);
	}
}
