/* Output queue of the threaded coders (src/liblzma/common/outqueue.c), sequential data-structure facts: C08, C09, C10, C04. */

/*@obligation
id: C08.outq.get_read
props: C08 C09 C04
entry: h_outq
unwind: 12
kind: bounded
bound: queue shapes with 0..2 buffers in use and 1..2 cached buffers (8-byte payloads); all counters and positions symbolic
fn: lzma_outq_get_buf lzma_outq_read move_head_to_cache lzma_outq_is_readable
sentinels: 5
expect: 40
replay: none
desc: lzma_outq_get_buf takes the cache head and appends it at the TAIL (old tail->next == new buffer; head unchanged unless the queue was empty), initialises finished=false, pos=0, finish_ret=STREAM_END, sizes 0, and accounts one buffer and sizeof(lzma_outbuf)+allocated bytes as in use; lzma_outq_read copies only from the HEAD buffer, from read_pos, at most the bytes available and the output room, and removes the head only when it is finished AND fully read, returning its finish_ret and sizes, resetting read_pos, moving it to the cache and un-accounting it; otherwise it returns OK and leaves the list alone. Hence buffers are read in exactly the order they were claimed (FIFO): Blocks appear in input order
assume: sequential use (the callers hold the coder mutex); lzma_free is a recording stub
*/
/*@obligation
id: C09.outq.memusage
props: C09 C08 C04
entry: h_outq_mem
unwind: 4
fn: lzma_outq_memusage lzma_outq_outbuf_memusage
sentinels: 2
expect: 2
desc: lzma_outq_memusage(size, threads): UINT64_MAX for more than LZMA_THREADS_MAX threads or sizes above the guard; otherwise exactly 2*threads buffers of sizeof(lzma_outbuf)+size bytes -- the bound of what the queue may have allocated (bufs_limit * per-buffer usage)
*/

#include "verif.h"
#include "liblzma/common/common.h"
#include <stdlib.h>

static struct { unsigned frees; void *last_free; } GO;
void *lzma_alloc(size_t s, const lzma_allocator *a) { (void)a; return malloc(s); }
void lzma_free(void *p, const lzma_allocator *a) { (void)a; if (p != NULL) { ++GO.frees; GO.last_free = p; } }
size_t lzma_bufcpy(const uint8_t *restrict in, size_t *restrict in_pos, size_t in_size,
		uint8_t *restrict out, size_t *restrict out_pos, size_t out_size)
{
	const size_t in_avail = in_size - *in_pos, out_avail = out_size - *out_pos;
	const size_t n = in_avail < out_avail ? in_avail : out_avail;
	for (size_t k = 0; k < n; ++k) out[*out_pos + k] = in[*in_pos + k];
	*in_pos += n; *out_pos += n;
	return n;
}

#include "liblzma/common/outqueue.c"

struct in {
	uint32_t n_use, n_cache;                 /* shape */
	size_t read_pos, pos0, pos1, out_size, out_pos;
	uint8_t fin0, fin1; uint32_t fret0; uint64_t unp0, unc0;
	uint8_t data0[8], data1[8];
	uint64_t mem_in_use, mem_alloc; uint32_t bufs_alloc, bufs_limit;
	uint8_t op;
	uint64_t m_size; uint32_t m_threads;
};
static struct in IN VERIF_IN_INIT;

#define PAY 8
static lzma_outbuf *mk(void) { lzma_outbuf *b = malloc(sizeof(lzma_outbuf) + PAY); ASSUME(b != NULL); memset(b, 0, sizeof(lzma_outbuf) + PAY); b->allocated = PAY; return b; }
static int WORKER;

void h_outq(void)
{
	HAVOC(IN, struct in);
	ASSUME(IN.n_use <= 2 && IN.n_cache >= 1 && IN.n_cache <= 2 && IN.fin0 <= 1 && IN.fin1 <= 1 && IN.op <= 1);
	ASSUME(IN.pos0 <= PAY && IN.pos1 <= PAY && IN.read_pos <= IN.pos0 && IN.out_size <= 8 && IN.out_pos <= IN.out_size);
	ASSUME(IN.fret0 <= 12);
	const uint64_t per = sizeof(lzma_outbuf) + PAY;
	ASSUME(IN.bufs_alloc == IN.n_use + IN.n_cache && IN.bufs_limit >= IN.bufs_alloc && IN.bufs_limit <= 64);
	ASSUME(IN.mem_in_use == IN.n_use * per && IN.mem_alloc == IN.bufs_alloc * per);
	lzma_outbuf *b0 = mk(), *b1 = mk(), *c0 = mk(), *c1 = mk();
	lzma_outq q; memset(&q, 0, sizeof(q));
	if (IN.n_use >= 1) { q.head = b0; q.tail = b0; b0->pos = IN.pos0; b0->finished = IN.fin0; b0->finish_ret = (lzma_ret)IN.fret0; b0->unpadded_size = IN.unp0; b0->uncompressed_size = IN.unc0; memcpy(b0->buf, IN.data0, PAY); }
	if (IN.n_use >= 2) { b0->next = b1; q.tail = b1; b1->pos = IN.pos1; b1->finished = IN.fin1; memcpy(b1->buf, IN.data1, PAY); }
	q.cache = c0; if (IN.n_cache >= 2) c0->next = c1;
	q.read_pos = IN.n_use ? IN.read_pos : 0;
	q.bufs_in_use = IN.n_use; q.bufs_allocated = IN.bufs_alloc; q.bufs_limit = IN.bufs_limit; q.mem_in_use = IN.mem_in_use; q.mem_allocated = IN.mem_alloc;
	memset(&GO, 0, sizeof(GO));

	if (IN.op == 0) {
		/* ---- get_buf ---- */
		ASSUME(IN.n_use < IN.bufs_limit);
		c0->pos = 5; c0->finished = true; c0->unpadded_size = 9; /* stale contents of a recycled buffer */
		lzma_outbuf *old_tail = q.tail, *old_head = q.head;
		lzma_outbuf *g = lzma_outq_get_buf(&q, &WORKER);
		ASSERT(g == c0, "the buffer comes from the cache head");
		ASSERT(q.tail == g && g->next == NULL, "appended at the tail");
		if (old_tail != NULL) ASSERT(old_tail->next == g && q.head == old_head, "behind the previous tail; head unchanged");
		else ASSERT(q.head == g, "first buffer of an empty queue is also the head");
		ASSERT(q.cache == (IN.n_cache >= 2 ? c1 : NULL), "cache advanced");
		ASSERT(!g->finished && g->pos == 0 && g->finish_ret == LZMA_STREAM_END && g->unpadded_size == 0 && g->uncompressed_size == 0 && g->decoder_in_pos == 0 && g->worker == &WORKER, "recycled buffer fully re-initialised");
		ASSERT(q.bufs_in_use == IN.n_use + 1 && q.mem_in_use == IN.mem_in_use + per && q.bufs_allocated == IN.bufs_alloc && q.mem_allocated == IN.mem_alloc, "accounting: one more buffer in use, nothing allocated");
		ASSERT(q.bufs_in_use <= q.bufs_allocated && q.mem_in_use <= q.mem_allocated, "in use never exceeds allocated");
		if (IN.n_use >= 1) ASSERT(b0->pos == IN.pos0 && b0->finished == (bool)IN.fin0, "buffers already queued are untouched");
		REACH_IF(IN.n_use == 0, outq_get_empty);
		REACH_IF(IN.n_use == 2, outq_get_third);
		return;
	}
	/* ---- read ---- */
	uint8_t out[8]; memset(out, 0xEE, 8);
	size_t out_pos = IN.out_pos; lzma_vli unp = 77, unc = 78;
	const bool readable = lzma_outq_is_readable(&q);
	const lzma_ret r = lzma_outq_read(&q, NULL, out, &out_pos, IN.out_size, &unp, &unc);
	if (IN.n_use == 0) { ASSERT(r == LZMA_OK && out_pos == IN.out_pos && !readable, "empty queue: nothing to read"); REACH(outq_read_empty); return; }
	const size_t avail = IN.pos0 - IN.read_pos, room = IN.out_size - IN.out_pos, n = avail < room ? avail : room;
	ASSERT(readable == (IN.read_pos < IN.pos0 || IN.fin0), "readable iff the head has unread bytes or is finished");
	ASSERT(out_pos == IN.out_pos + n, "copies min(available in the head buffer, output room)");
	for (size_t k = 0; k < 8; ++k) if (k < n) ASSERT(out[IN.out_pos + k] == IN.data0[IN.read_pos + k], "bytes come from the HEAD buffer, continuing at read_pos");
	if (IN.fin0 && IN.read_pos + n == IN.pos0) {
		ASSERT(r == (lzma_ret)IN.fret0 && unp == IN.unp0 && unc == IN.unc0, "finished and fully read: the head's result code and sizes are returned");
		ASSERT(q.head == (IN.n_use >= 2 ? b1 : NULL) && (IN.n_use >= 2 || q.tail == NULL) && q.read_pos == 0, "head removed, next buffer (claimed later) becomes the head: FIFO");
		ASSERT(q.cache == b0 && q.bufs_in_use == IN.n_use - 1 && q.mem_in_use == IN.mem_in_use - per && q.bufs_allocated == IN.bufs_alloc, "removed buffer goes to the cache; accounting updated");
		REACH(outq_read_pop);
	} else {
		ASSERT(r == LZMA_OK && q.head == b0 && q.read_pos == IN.read_pos + n && q.bufs_in_use == IN.n_use && unp == 77 && unc == 78, "otherwise the list is untouched and only read_pos advances");
		REACH(outq_read_partial);
	}
	if (IN.n_use >= 2) ASSERT(b1->pos == IN.pos1 && b0->next == (q.head == b0 ? b1 : b0->next), "the second buffer is never read before the first is done");
}

void h_outq_mem(void)
{
	HAVOC(IN, struct in);
	const uint64_t m = lzma_outq_memusage(IN.m_size, IN.m_threads);
	const uint64_t limit = UINT64_MAX / (2 * LZMA_THREADS_MAX) / 2;
	if (IN.m_threads > LZMA_THREADS_MAX || IN.m_size > limit) { ASSERT(m == UINT64_MAX, "impossible request"); REACH(outq_mem_max); return; }
	ASSERT(m == (uint64_t)(2 * IN.m_threads) * (sizeof(lzma_outbuf) + IN.m_size), "2*threads buffers of header+size bytes, no wrap");
	/* no wrap: threads <= 2^14 and size <= UINT64_MAX/2^16 - header by the guard above (64-bit division facts do not finish in the SAT back end) */
	REACH(outq_mem_ok);
}
