#include <lzma.h>
#include <stdio.h>
#include <stdlib.h>
#include <string.h>
static size_t fail_at_least = 0; /* fail allocations >= this size (0 = never) */
static void *my_alloc(void *o, size_t n, size_t s) { (void)o; size_t t = n * s; if (fail_at_least && t >= fail_at_least) return NULL; return malloc(t); }
static void my_free(void *o, void *p) { (void)o; free(p); }
static void hdr(uint8_t *h, uint32_t dict) { h[0] = 0x5D; h[1]=dict; h[2]=dict>>8; h[3]=dict>>16; h[4]=dict>>24; memset(h+5, 0xFF, 8); }
int main(void) {
	lzma_allocator al = { my_alloc, my_free, NULL };
	lzma_stream strm = LZMA_STREAM_INIT; strm.allocator = &al;
	uint8_t in[16], out[64]; lzma_ret r;
	const uint32_t A = 1u << 20, B = 1u << 21;
	/* 1: decode header with dictionary A */
	if (lzma_alone_decoder(&strm, UINT64_MAX) != LZMA_OK) return 2;
	hdr(in, A); in[13] = 0; strm.next_in = in; strm.avail_in = 14; strm.next_out = out; strm.avail_out = sizeof(out);
	r = lzma_code(&strm, LZMA_RUN); printf("step1 ret=%d\n", r);
	/* 2+3: re-init the same handle, header with dictionary B, allocation of the dictionary fails */
	if (lzma_alone_decoder(&strm, UINT64_MAX) != LZMA_OK) return 2;
	fail_at_least = 1u << 20;
	hdr(in, B); strm.next_in = in; strm.avail_in = 14; strm.next_out = out; strm.avail_out = sizeof(out);
	r = lzma_code(&strm, LZMA_RUN); printf("step3 ret=%d (expect 5 = LZMA_MEM_ERROR)\n", r);
	fail_at_least = 0;
	/* 4+5: allocation works again; re-init and decode a stream with dictionary A */
	if (lzma_alone_decoder(&strm, UINT64_MAX) != LZMA_OK) return 2;
	hdr(in, A); strm.next_in = in; strm.avail_in = 14; strm.next_out = out; strm.avail_out = sizeof(out);
	r = lzma_code(&strm, LZMA_RUN); printf("step5 ret=%d\n", r);
	lzma_end(&strm);
	printf("survived\n");
	return 0;
}
