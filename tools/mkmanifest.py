#!/usr/bin/env python3
"""Regenerates /verif/MANIFEST.json from the obligation registry and the per-property texts below."""
import json, os, subprocess, sys, re
V = os.path.dirname(os.path.dirname(os.path.abspath(__file__)))
sys.path.insert(0, V)
out = subprocess.run([os.path.join(V, "check"), "--list"], stdout=subprocess.PIPE, check=True).stdout.decode()
have = {}
for l in out.splitlines():
    f = l.split()
    for p in f[1].split(","):
        have.setdefault(p, []).append(f[0])

TEXT = json.load(open(os.path.join(V, "tools", "manifest_text.json")))
hooks = [l.strip() for l in open(os.path.join(V, "cfg", "hook_commits.txt")) if l.strip()] if os.path.exists(os.path.join(V, "cfg", "hook_commits.txt")) else []
checks, na = [], []
for i in range(1, 21):
    pid = "C%02d" % i
    t = TEXT[pid]
    if pid in have and not t.get("not_applicable"):
        checks.append({
            "property_id": pid,
            "quick_cmd": f"./check {pid} --tier quick",
            "thorough_cmd": f"./check {pid} --tier thorough",
            "evidence_file": f"/verif/evidence/{pid}.json",
            "replay_cmd_template": f"./check {pid} --replay {{path}}",
            "engine": "cbmc-contracts",
            "level_claimed": {"category": "proof", "text": t["text"], "design_ref": "DESIGN.md section 4, " + pid},
            "level_note": t["note"],
            "technique": t.get("technique", "contract-based deductive verification: CBMC 6.11 function contracts and loop contracts on the real xz translation units, enforced per function with goto-instrument --dfcc (callees replaced by their contracts), discharged by cbmc's SAT back end"),
        })
    else:
        na.append({"property_id": pid, "reason": t.get("na_reason", "no obligation built yet for this property in this round; nothing is claimed")})
m = {
    "version": 1,
    "setup_cmd": "./setup.sh",
    "hooks": {
        "guard": "TUKAANI_PROJECT_XZ_VERIF",
        "enable": "harness translation units #include the real /repo/src files and are compiled by goto-cc with the cmake build's -D flags plus -DTUKAANI_PROJECT_XZ_VERIF (the loop-contract macro slots VERIF_*_LOOP_CONTRACT in src/xz/coder.c, src/xz/file_io.c and src/xzdec/xzdec.c are filled by harness/xz_coder_lc.c, xz_io_lc.c and xzdec_lc.c only then; without the guard they do not exist)",
        "baseline_off_cmd": "cmake -G Ninja -B /repo/_build -S /repo && cmake --build /repo/_build && ctest --test-dir /repo/_build -j8 --timeout 900",
        "source_commits": hooks,
        "add_only": True,
    },
    "engines": [{"name": "cbmc-contracts", "path": "/verif/check", "serves_properties": [c["property_id"] for c in checks],
                 "kind_free_text": "python driver: goto-cc on harness+real sources, goto-instrument --dfcc contract/loop-contract instrumentation, cbmc; native gcc ASan/UBSan replay of counterexamples"}],
    "checks": checks,
    "not_applicable": na,
    "notes": "See DESIGN.md. Exit 2 + UNDECIDED line = tool limit/timeout, never reported as violation. Bounded stand-ins are labelled in evidence coverage.bounded and not counted as discharged.",
}
json.dump(m, open(os.path.join(V, "MANIFEST.json"), "w"), indent=1)
try:
    import jsonschema
    jsonschema.validate(m, json.load(open("/root/.vp/MANIFEST.schema.json")))
except ImportError:
    print("(jsonschema not importable; run with python3-vt to validate)")
print("MANIFEST ok:", [c["property_id"] for c in checks], "NA:", [n["property_id"] for n in na])
