#!/bin/bash
# usage: tools/mkmut.sh <name> <props,comma> <file-relative-to-repo> <sed-expr> [more sed-exprs]
# creates mutants/<name>.diff from a scratch copy of the file
set -e
name=$1; props=$2; f=$3; shift 3
tmp=$(mktemp -d)
mkdir -p $tmp/a/$(dirname $f) $tmp/b/$(dirname $f)
cp /repo/$f $tmp/a/$f; cp /repo/$f $tmp/b/$f
for e in "$@"; do sed -i "$e" $tmp/b/$f; done
if cmp -s $tmp/a/$f $tmp/b/$f; then echo "mutation had no effect"; rm -rf $tmp; exit 1; fi
{ echo "property: $props"; (cd $tmp && diff -u a/$f b/$f) || true; } > ${VERIF_DIR:-/verif}/mutants/$name.diff
rm -rf $tmp
echo "wrote mutants/$name.diff"
