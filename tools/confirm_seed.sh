#!/bin/bash
# usage: tools/confirm_seed.sh <PROP> [name]   -- confirms the seed left by a sub-agent in /tmp/seed_<PROP> and stores it in /verif/seeded/<name>
# Confirms: patch applies to pristine /repo HEAD; worktree (patched) builds; 19 tests pass with patch; demo fails with patch; demo passes against unpatched /repo/_build/liblzma.a
P=$1; NAME=${2:-$P-1}; W=${W:-/tmp/seed_$P}; D=/verif/seeded/$NAME
mkdir -p $D; cp $W/SEED/patch.diff $D/; cp $W/SEED/demo.* $D/ 2>/dev/null; rm -f $D/demo; cp $W/SEED/meta.json $D/agent_meta.json
log=$D/confirm.log; : > $log
git -C /repo apply --check $D/patch.diff >>$log 2>&1 && applies=true || applies=false
# make sure worktree == HEAD + patch
git -C $W checkout -q -- . ; git -C $W apply $D/patch.diff >>$log 2>&1
cmake --build $W/_build -j8 >>$log 2>&1 && builds=true || builds=false
ctest --test-dir $W/_build -j8 --timeout 900 >>$log 2>&1; n=$(grep -c "Passed" $log); grep -q "100% tests passed" $log && tests=true || tests=false
demo=$(ls $D/demo.c 2>/dev/null)
if [ -n "$demo" ]; then
  gcc -std=gnu99 -O1 -I $W/src/liblzma/api -o /tmp/demo_$P.with $D/demo.c $W/_build/liblzma.a -lpthread >>$log 2>&1
  (cd $W/SEED && /tmp/demo_$P.with) >>$log 2>&1; rc_with=$?
  gcc -std=gnu99 -O1 -I /repo/src/liblzma/api -o /tmp/demo_$P.without $D/demo.c /repo/_build/liblzma.a -lpthread >>$log 2>&1
  (cd $W/SEED && /tmp/demo_$P.without) >>$log 2>&1; rc_without=$?
  rm -f /tmp/demo_$P.with /tmp/demo_$P.without
elif [ -f $D/demo.sh ]; then
  # shell demo: first arg = path of xz (C17,C19) or of the build dir (C18)
  if grep -q 'B=\${1:-' $D/demo.sh; then A1=$W/_build; A2=/repo/_build; else A1=$W/_build/xz; A2=/repo/_build/xz; fi
  bash $D/demo.sh $A1 >>$log 2>&1; rc_with=$?
  bash $D/demo.sh $A2 >>$log 2>&1; rc_without=$?
else
  rc_with=NA; rc_without=NA
fi
echo "$NAME applies=$applies builds=$builds tests_pass=$tests demo_rc_with_patch=$rc_with demo_rc_without=$rc_without"
python3 - <<PY
import json
a=json.load(open("$D/agent_meta.json"))
m={"property":"$P","summary":a.get("summary"),"needs_to_manifest":a.get("needs_to_manifest"),"files_touched":a.get("files_touched"),
"confirmed_by_me":{"patch_applies_to_repo_HEAD":"$applies"=="true","builds":"$builds"=="true","all_19_ctest_pass_with_patch":"$tests"=="true","demo_exit_with_patch":"$rc_with","demo_exit_without_patch":"$rc_without"},
"what_i_ran":["git apply --check patch.diff (on /repo)","cmake --build <worktree>/_build; ctest --test-dir <worktree>/_build -j8","gcc demo.c <worktree>/_build/liblzma.a && ./demo  (expect non-zero)","gcc demo.c /repo/_build/liblzma.a && ./demo (expect 0)"],
"caught_by":"(filled in after running ./check --mutants)"}
json.dump(m,open("$D/meta.json","w"),indent=1)
PY
